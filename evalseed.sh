#!/bin/bash
# evalseed.sh <patch.diff> <prop> [more props...] : apply a seeded change to /repo, run the
# named checks (quick, then thorough with a short budget if quick misses), undo the change.
# Never commits anything in /repo.
patch=$1; shift
cd /verif || exit 2
if ! git -C /repo diff --quiet; then echo "/repo has uncommitted changes"; exit 2; fi
git -C /repo apply --3way "$patch" >/dev/null 2>&1 || { echo "patch does not apply"; exit 2; }
trap 'git -C /repo reset -q; git -C /repo checkout -- . ; git -C /repo clean -fdq -- . 2>/dev/null' EXIT
for p in "$@"; do
  ./vcheck $p --tier quick > out/logs/seed.$p.quick.log 2>&1; rc=$?
  echo "$p quick rc=$rc: $(grep -m1 '^violation' out/logs/seed.$p.quick.log | cut -c1-300)"
  if [ $rc -ne 1 ]; then
    ./vcheck $p --tier thorough --budget ${SEED_THOROUGH_S:-240} > out/logs/seed.$p.thorough.log 2>&1; rc=$?
    echo "$p thorough rc=$rc: $(grep -m1 '^violation' out/logs/seed.$p.thorough.log | cut -c1-300)"
  fi
done
