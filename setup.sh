#!/bin/bash
# MANIFEST.setup_cmd: verify the offline toolchain and warm the build cache.
cd "$(dirname "$0")" || exit 2
. ./env.sh
go version || { echo "no Go toolchain"; exit 2; }
cp /repo/go.sum ./go.sum.repo 2>/dev/null
mkdir -p out/bin evidence
go build -tags verif -o out/bin/vcheck ./cmd/vcheck || exit 2
go test -c -tags verif -o out/bin/worker.test ./props || exit 2
go test -race -c -tags verif -o out/bin/race.test ./props || exit 2
rm -f out/bin/worker.test out/bin/race.test go.sum.repo
echo "setup ok: $(go version)"
