#!/bin/bash
# confirmseed.sh <id> : confirm a seeded change in its scratch worktree /tmp/wt-<id>
# (patch applies and builds; demonstration fails with it and passes without it; existing suite passes with it).
id=$1
wt=/tmp/wt-$id; md=/tmp/mut-$id; log=/tmp/confirm-$id.log
. /verif/env.sh
cd $wt || exit 2
{
echo "== confirm $id $(date)"
git checkout -q -- . 
git apply $md/patch.diff || { echo "RESULT patch-does-not-apply"; exit 1; }
go build ./... || { echo "RESULT does-not-build"; exit 1; }
cp $md/*_test.go . 2>/dev/null
demo=$(cat $md/demo_cmd.txt 2>/dev/null | grep -v '^#' | grep 'go ' | head -1)
[ -z "$demo" ] && demo="go test -vet=off -count=1 -timeout 10m -run ZZDemo ."
echo "demo cmd: $demo"
echo "-- demo WITH change (must fail)"
( eval "$demo" ) > /tmp/confirm-$id.with.log 2>&1; rc_with=$?
tail -5 /tmp/confirm-$id.with.log
git apply -R $md/patch.diff
echo "-- demo WITHOUT change (must pass)"
( eval "$demo" ) > /tmp/confirm-$id.without.log 2>&1; rc_without=$?
tail -3 /tmp/confirm-$id.without.log
git apply $md/patch.diff
echo "demo rc with=$rc_with without=$rc_without"
echo "-- existing suite WITH change"
# the root package is run from a uniquely named binary (other jobs on this machine pkill "bbolt.test")
go test -c -vet=off -o /tmp/cfm-$id.rootbin . > /tmp/confirm-$id.suite.log 2>&1
( /tmp/cfm-$id.rootbin -test.count=1 -test.timeout 120m -test.skip 'ZZ|Demo|Seeded|TestDB_Open_InitialMmapSize' >> /tmp/confirm-$id.suite.log 2>&1 ); rc_root=$?
echo "root package rc=$rc_root" >> /tmp/confirm-$id.suite.log
go test -vet=off -count=1 -timeout 60m ./internal/... ./cmd/... >> /tmp/confirm-$id.suite.log 2>&1; rc_rest=$?
rm -f /tmp/cfm-$id.rootbin
rc_suite=$(( rc_root + rc_rest ))
grep -E "^(ok|FAIL|--- FAIL|PASS|root package)" /tmp/confirm-$id.suite.log | head -12
echo "RESULT demo_with=$rc_with demo_without=$rc_without suite=$rc_suite"
} > $log 2>&1
