// vcheck is the supervisor: it builds the worker binary from /repo's current
// working tree with -tags verif, fans out worker processes over run indices,
// shrinks and re-validates violations, matches them against the committed
// known-findings file, writes evidence/<id>.json and prints the verdict.
//
// exit 0: property held on everything explored (KNOWN-FINDING lines allowed)
// exit 1: VIOLATION property=<id> replay=<path>
// exit 2: harness / build / watchdog trouble (never a verdict)
package main

import (
	"context"
	"encoding/json"
	"flag"
	"fmt"
	"os"
	"os/exec"
	"path/filepath"
	"runtime"
	"sort"
	"strconv"
	"strings"
	"time"

	"go.etcd.io/bbolt/xverif/props"
	"go.etcd.io/bbolt/xverif/work"
)

func envInt(name string, def int) int {
	if v := os.Getenv(name); v != "" {
		if n, err := strconv.Atoi(v); err == nil {
			return n
		}
	}
	return def
}

func die(code int, f string, a ...any) {
	fmt.Printf(f+"\n", a...)
	os.Exit(code)
}

var verifDir string

// modfileArgs supports building against another checkout of bbolt than /repo
// (VERIF_REPO=<dir>; used for background runs on a snapshot): a copy of go.mod
// with the replace directive rewritten is passed with -modfile.
func modfileArgs(scratch string) []string {
	repo := os.Getenv("VERIF_REPO")
	if repo == "" || repo == "/repo" {
		return nil
	}
	b, err := os.ReadFile(filepath.Join(verifDir, "go.mod"))
	if err != nil {
		return nil
	}
	mod := strings.Replace(string(b), "=> /repo", "=> "+repo, 1)
	mf := filepath.Join(scratch, "alt.mod")
	_ = os.WriteFile(mf, []byte(mod), 0644)
	if sum, err := os.ReadFile(filepath.Join(verifDir, "go.sum")); err == nil {
		_ = os.WriteFile(filepath.Join(scratch, "alt.sum"), sum, 0644)
	}
	return []string{"-modfile=" + mf}
}

func buildWorker(scratch string) string {
	bin := filepath.Join(scratch, "worker.test")
	args := append([]string{"test", "-c", "-tags", "verif", "-o", bin}, modfileArgs(scratch)...)
	cmd := exec.Command("go", append(args, "./props")...)
	cmd.Dir = verifDir
	out, err := cmd.CombinedOutput()
	if err != nil {
		die(2, "HARNESS-ERROR build failed:\n%s", out)
	}
	return bin
}

func runWorker(bin string, sp *props.Spec, timeout time.Duration) (*props.Result, int, string) {
	return runWorkerEnv(bin, sp, timeout, "GOMAXPROCS=2")
}

func runWorkerEnv(bin string, sp *props.Spec, timeout time.Duration, extraEnv string) (*props.Result, int, string) {
	specPath := filepath.Join(sp.OutDir, fmt.Sprintf("spec-%d.json", sp.ID))
	b, _ := json.Marshal(sp)
	_ = os.WriteFile(specPath, b, 0644)
	resPath := filepath.Join(sp.OutDir, fmt.Sprintf("result-%d.json", sp.ID))
	_ = os.Remove(resPath)
	cmd := exec.Command(bin, "-test.run", "^TestWorker$", "-test.timeout", "0", "-test.cpu", "1")
	cmd.Env = append(os.Environ(), "VERIF_SPEC="+specPath, "VERIF_DIR="+verifDir, extraEnv)
	cmd.Dir = sp.OutDir
	var buf strings.Builder
	cmd.Stdout = &buf
	cmd.Stderr = &buf
	if err := cmd.Start(); err != nil {
		return nil, 2, err.Error()
	}
	done := make(chan error, 1)
	go func() { done <- cmd.Wait() }()
	code := 0
	select {
	case err := <-done:
		if err != nil {
			if ee, ok := err.(*exec.ExitError); ok {
				code = ee.ExitCode()
			} else {
				code = 2
			}
		}
	case <-time.After(timeout):
		_ = cmd.Process.Kill()
		<-done
		code = 124
	}
	var res props.Result
	rb, err := os.ReadFile(resPath)
	if err != nil {
		return nil, code, buf.String()
	}
	if err := json.Unmarshal(rb, &res); err != nil {
		return nil, code, buf.String()
	}
	return &res, code, buf.String()
}

type evidence struct {
	PropertyID  string         `json:"property_id"`
	Tier        string         `json:"tier"`
	Seed        int64          `json:"seed"`
	Level       string         `json:"level"`
	Coverage    map[string]any `json:"coverage"`
	Assumptions []string       `json:"assumptions"`
	WallS       float64        `json:"wall_s"`
	Violations  int            `json:"violations"`
}

func main() {
	if len(os.Args) < 2 {
		die(2, "usage: vcheck <property|selftest> [--tier quick|thorough] [--replay file]")
	}
	prop := os.Args[1]
	fs := flag.NewFlagSet("vcheck", flag.ExitOnError)
	tier := fs.String("tier", os.Getenv("VERIF_TIER"), "quick | thorough")
	replay := fs.String("replay", "", "replay file")
	seedF := fs.Int64("seed", int64(envInt("VERIF_SEED", 1)), "seed")
	jobs := fs.Int("jobs", envInt("VERIF_JOBS", 0), "worker processes")
	budget := fs.Int("budget", envInt("VERIF_BUDGET_S", 0), "wall-clock budget in seconds")
	maxRuns := fs.Int("max-runs", envInt("VERIF_MAX_RUNS", 0), "runs per worker (0: until budget)")
	keep := fs.Bool("keep", false, "keep scratch directory")
	_ = fs.Parse(os.Args[2:])
	if *tier == "" {
		*tier = "quick"
	}
	verifDir = os.Getenv("VERIF_DIR")
	if verifDir == "" {
		wd, _ := os.Getwd()
		verifDir = wd
	}
	os.Setenv("VERIF_DIR", verifDir)
	if *jobs <= 0 {
		*jobs = runtime.NumCPU()
		if *jobs > 16 {
			*jobs = 16
		}
	}
	start := time.Now()
	scratch, err := os.MkdirTemp("/dev/shm", "verif-")
	if err != nil {
		scratch, err = os.MkdirTemp("", "verif-")
		if err != nil {
			die(2, "HARNESS-ERROR no scratch space: %v", err)
		}
	}
	if !*keep {
		defer os.RemoveAll(scratch)
	}
	exit := func(code int) {
		if !*keep {
			os.RemoveAll(scratch)
		}
		os.Exit(code)
	}
	bin := buildWorker(scratch)
	replayDir := filepath.Join(verifDir, "out", "replays")
	_ = os.MkdirAll(replayDir, 0755)

	if *replay != "" {
		if rc, err := props.LoadCase(*replay); err == nil && rc.Engine == "race" {
			rbin, berr := buildRace(scratch)
			if rbin == "" {
				die(2, "HARNESS-ERROR race build failed:\n%s", berr)
			}
			// best effort: the schedule is the operating system's; re-run the same workload a few times
			for try := 0; try < 20; try++ {
				_, hits, _ := runRace(rbin, scratch, rc.Seed, 1, time.Now().Add(time.Minute), rc.Run, 1)
				if len(hits) > 0 {
					fmt.Println(tail(hits[0].report, 3000))
					fmt.Printf("VIOLATION property=%s replay=%s\n", prop, *replay)
					exit(1)
				}
			}
			fmt.Println("replay: no data race reported in 20 re-executions (best-effort replay of the free-running arm)")
			exit(0)
		}
		sp := &props.Spec{Mode: "replay", Prop: prop, Tier: *tier, OutDir: scratch, ID: 0, Replay: *replay, StuckS: 20}
		res, code, out := runWorker(bin, sp, 10*time.Minute)
		if res == nil {
			fmt.Print(out)
			die(2, "HARNESS-ERROR replay worker failed (exit %d)", code)
		}
		if os.Getenv("VERIF_TRACE") != "" {
			fmt.Print(out)
		}
		for _, v := range res.Violations {
			fmt.Printf("replayed: %s/%s: %s\n", v.Prop, v.Class, v.Msg)
		}
		if len(res.Violations) > 0 {
			fmt.Printf("VIOLATION property=%s replay=%s\n", prop, *replay)
			exit(1)
		}
		fmt.Println("replay: no violation")
		exit(0)
	}

	if prop == "selftest-det" {
		// determinism self-test: the same (seed, run) executed in separate
		// processes at different GOMAXPROCS / worker counts must produce
		// identical digests.
		target := fs.Arg(0)
		if props.Lookup(target) == nil {
			die(2, "usage: vcheck selftest-det --max-runs N <property>")
		}
		n := *maxRuns
		if n == 0 {
			n = 40
		}
		type cfg struct{ jobs, procs int }
		var base map[string]uint64
		bad := 0
		for pass, cf := range []cfg{{4, 1}, {8, 4}, {16, 16}, {2, 2}} {
			got := map[string]uint64{}
			total := n * 4
			ch := make(chan *props.Result, cf.jobs)
			for i := 0; i < cf.jobs; i++ {
				sp := &props.Spec{Mode: "explore", Prop: target, Tier: *tier, Seed: uint64(*seedF), First: uint64(i), Stride: uint64(cf.jobs),
					DeadlineMS: time.Now().Add(30 * time.Minute).UnixMilli(), MaxRuns: (total + cf.jobs - 1) / cf.jobs, OutDir: scratch, ID: pass*100 + i, StuckS: 60, MaxViol: 1000000}
				go func() {
					os.Setenv("VERIF_DIGEST", "1")
					r, _, _ := runWorkerEnv(bin, sp, 40*time.Minute, fmt.Sprintf("GOMAXPROCS=%d", cf.procs))
					ch <- r
				}()
			}
			for i := 0; i < cf.jobs; i++ {
				r := <-ch
				if r == nil {
					die(2, "HARNESS-ERROR determinism worker died")
				}
				for k, v := range r.Digests {
					got[k] = v
				}
			}
			if base == nil {
				base = got
				fmt.Printf("pass %d: %d runs (jobs=%d GOMAXPROCS=%d)\n", pass, len(got), cf.jobs, cf.procs)
				continue
			}
			diff := 0
			cmp := 0
			for k, v := range got {
				if b, ok := base[k]; ok {
					cmp++
					if b != v {
						diff++
						if diff <= 5 {
							fmt.Printf("  run %s differs: %x vs %x\n", k, b, v)
						}
					}
				}
			}
			fmt.Printf("pass %d: %d runs compared (jobs=%d GOMAXPROCS=%d): %d differ\n", pass, cmp, cf.jobs, cf.procs, diff)
			bad += diff
		}
		if bad > 0 {
			fmt.Println("DETERMINISM-FAILED")
			exit(2)
		}
		fmt.Println("determinism ok")
		exit(0)
	}

	info := props.Lookup(prop)
	if info == nil {
		die(2, "HARNESS-ERROR unknown property %q (known: %v)", prop, props.Props())
	}
	bud := *budget
	if bud == 0 {
		bud = info.QuickS
		if *tier == "thorough" {
			bud = info.ThoroughS
		}
	}
	deadline := time.Now().Add(time.Duration(bud) * time.Second)

	// explore
	type wr struct {
		res  *props.Result
		code int
		out  string
		id   int
		spec *props.Spec
	}
	ch := make(chan wr, *jobs)
	for i := 0; i < *jobs; i++ {
		sp := &props.Spec{Mode: "explore", Prop: prop, Tier: *tier, Seed: uint64(*seedF), First: uint64(i), Stride: uint64(*jobs),
			DeadlineMS: deadline.UnixMilli(), MaxRuns: *maxRuns, OutDir: scratch, ID: i, StuckS: 60}
		go func() {
			r, c, o := runWorker(bin, sp, time.Duration(bud)*time.Second+5*time.Minute)
			ch <- wr{r, c, o, sp.ID, sp}
		}()
	}
	agg := &props.Result{Probes: map[string]int{}, Faults: map[string]int{}, OtherProps: map[string]int{}}
	distinct := map[uint64]bool{}
	inter := map[uint64]bool{}
	harnessTrouble := []string{}
	for i := 0; i < *jobs; i++ {
		w := <-ch
		if w.res == nil {
			// a worker that died while evaluating a journalled case: the crash is the finding
			attributed := false
			if js, _ := filepath.Glob(filepath.Join(scratch, fmt.Sprintf("journal-%d.json", w.id))); len(js) > 0 {
				for _, j := range js {
					c, err := props.LoadCase(j)
					if err != nil || c.Violation != nil {
						continue
					}
					what, _ := os.ReadFile(strings.TrimSuffix(j, ".json") + ".what")
					c.Violation = &work.Violation{Prop: prop, Class: "process-crash", Msg: fmt.Sprintf("the process died while evaluating: %s :: %s", what, firstPanicLine(w.out))}
					_ = props.SaveCase(j, c)
					agg.Violations = append(agg.Violations, props.ViolRec{Prop: prop, Class: "process-crash", Msg: c.Violation.Msg, Path: j, Run: c.Run})
					attributed = true
				}
			}
			if !attributed && w.code != 124 && w.spec != nil {
				// deterministic runs: execute the same run indices again, this time
				// journalling every run, to find the one that kills the process
				sp2 := *w.spec
				sp2.JournalAll = true
				sp2.ID = 700 + w.id
				sp2.DeadlineMS = time.Now().Add(time.Duration(bud) * time.Second).UnixMilli()
				r2, _, o2 := runWorker(bin, &sp2, time.Duration(bud)*time.Second+2*time.Minute)
				if r2 == nil {
					j := filepath.Join(scratch, fmt.Sprintf("journal-%d.json", sp2.ID))
					if c, err := props.LoadCase(j); err == nil {
						c.Violation = &work.Violation{Prop: prop, Class: "process-crash", Msg: "the process died while executing this run :: " + firstPanicLine(o2)}
						_ = props.SaveCase(j, c)
						agg.Violations = append(agg.Violations, props.ViolRec{Prop: prop, Class: "process-crash", Msg: c.Violation.Msg, Path: j, Run: c.Run})
						attributed = true
					}
				}
			}
			if !attributed {
				harnessTrouble = append(harnessTrouble, fmt.Sprintf("worker died without a result (exit %d): %s", w.code, tail(w.out, 1500)))
			}
			continue
		}
		if w.code != 0 && w.code != 3 {
			harnessTrouble = append(harnessTrouble, fmt.Sprintf("worker exit %d: %s", w.code, tail(w.out, 1500)))
		}
		r := w.res
		agg.Runs += r.Runs
		agg.Evals += r.Evals
		agg.SimTimeNS += r.SimTimeNS
		agg.Decisions += r.Decisions
		for _, h := range r.Distinct {
			distinct[h] = true
		}
		for _, h := range r.Interleaved {
			inter[h] = true
		}
		for k, v := range r.Probes {
			agg.Probes[k] += v
		}
		for k, v := range r.Faults {
			agg.Faults[k] += v
		}
		for k, v := range r.OtherProps {
			agg.OtherProps[k] += v
		}
		agg.Violations = append(agg.Violations, r.Violations...)
		agg.HarnessErrs = append(agg.HarnessErrs, r.HarnessErrs...)
		if len(agg.Samples) < 3 {
			agg.Samples = append(agg.Samples, r.Samples...)
		}
	}
	exploreWall := time.Since(start).Seconds()

	// C03 only: the free-running arm under the race detector
	raceRuns := 0
	var raceViol []string
	if prop == "C03" && os.Getenv("VERIF_NO_RACE_ARM") == "" {
		rbin, berr := buildRace(scratch)
		if rbin == "" {
			harnessTrouble = append(harnessTrouble, "race build failed: "+tail(berr, 800))
		} else {
			rb := 20
			if *tier == "thorough" {
				rb = bud / 4
			}
			runs, hits, tr := runRace(rbin, scratch, uint64(*seedF), *jobs, time.Now().Add(time.Duration(rb)*time.Second), 0, 0)
			raceRuns = runs
			harnessTrouble = append(harnessTrouble, tr...)
			for i, h := range hits {
				if i > 0 {
					break
				}
				rc := &props.Case{Prop: "C03", Engine: "race", Seed: uint64(*seedF), Run: h.run, Tier: *tier,
					Violation: &work.Violation{Prop: "C03", Class: "data-race", Msg: "the Go race detector reports a data race inside bbolt (free-running arm)"}, Trace: []string{tail(h.report, 6000)}}
				dst := filepath.Join(replayDir, fmt.Sprintf("C03-seed%d-data-race-%d.json", *seedF, h.run))
				_ = props.SaveCase(dst, rc)
				raceViol = append(raceViol, dst)
				fmt.Println(tail(h.report, 2500))
			}
		}
	}

	// violations: one representative per class, shrunk and re-validated
	sort.Slice(agg.Violations, func(i, j int) bool {
		a, b := agg.Violations[i], agg.Violations[j]
		if a.Class != b.Class {
			return a.Class < b.Class
		}
		return a.Run < b.Run
	})
	type verdict struct {
		v     props.ViolRec
		known string
		path  string
	}
	var verdicts []verdict
	seenClass := map[string]bool{}
	nondet := 0
	for _, v := range agg.Violations {
		if v.Prop != prop {
			agg.OtherProps[v.Prop+"/"+v.Class]++
			continue
		}
		if seenClass[v.Class] || len(verdicts) >= 4 {
			continue
		}
		seenClass[v.Class] = true
		final := v.Path
		shrinkBudget := 400
		shrinkS := 60
		if *tier == "thorough" {
			shrinkBudget, shrinkS = 3000, 300
		}
		if v.Class != "process-crash" {
			sp := &props.Spec{Mode: "shrink", Prop: prop, Tier: *tier, OutDir: scratch, ID: 100 + len(verdicts), Replay: v.Path,
				ShrinkBudget: shrinkBudget, DeadlineMS: time.Now().Add(time.Duration(shrinkS) * time.Second).UnixMilli(), StuckS: 30}
			res, _, _ := runWorker(bin, sp, time.Duration(shrinkS+120)*time.Second)
			if res != nil && res.Reproduced && len(res.Violations) > 0 {
				final = res.Violations[0].Path
			}
		}
		// fresh-process re-validation
		sp := &props.Spec{Mode: "replay", Prop: prop, Tier: *tier, OutDir: scratch, ID: 200 + len(verdicts), Replay: final, StuckS: 20}
		res, code, _ := runWorker(bin, sp, 5*time.Minute)
		repro := res != nil && (res.Reproduced || (code == 3 && v.Class == "hang"))
		if v.Class == "process-crash" && res == nil && code != 0 && code != 124 {
			repro = true // it crashed again
		}
		if !repro && final != v.Path {
			// fall back to the unshrunk case
			final = v.Path
			sp.Replay = final
			sp.ID++
			res, code, _ = runWorker(bin, sp, 5*time.Minute)
			repro = res != nil && (res.Reproduced || (code == 3 && v.Class == "hang"))
		}
		if !repro {
			nondet++
			harnessTrouble = append(harnessTrouble, fmt.Sprintf("violation %s/%s (run %d) did not reproduce on replay: %s", v.Prop, v.Class, v.Run, v.Msg))
			continue
		}
		c, err := props.LoadCase(final)
		if err != nil {
			harnessTrouble = append(harnessTrouble, err.Error())
			continue
		}
		dst := filepath.Join(replayDir, fmt.Sprintf("%s-seed%d-%s-%d.json", prop, *seedF, strings.NewReplacer("/", "_", ":", "_", " ", "_").Replace(v.Class), v.Run))
		_ = props.SaveCase(dst, c)
		k := ""
		if c.Violation != nil {
			k = props.MatchKnown(c, c.Violation)
		}
		vv := v
		if c.Violation != nil {
			vv.Msg = c.Violation.Msg
		}
		verdicts = append(verdicts, verdict{vv, k, dst})
	}

	// canonical reproducers of open known findings of this property
	knownLines := map[string]string{}
	for _, f := range props.Known() {
		if f.Property != prop || f.Status != "open" {
			continue
		}
		cp := filepath.Join(verifDir, "known", f.ID+".json")
		if _, err := os.Stat(cp); err != nil {
			continue
		}
		sp := &props.Spec{Mode: "replay", Prop: prop, Tier: *tier, OutDir: scratch, ID: 300, Replay: cp, StuckS: 20}
		res, code, _ := runWorker(bin, sp, 5*time.Minute)
		if res != nil && (len(res.Violations) > 0 || code == 3) {
			knownLines[f.ID] = fmt.Sprintf("KNOWN-FINDING: property=%s %s: %s", prop, f.ID, f.What)
		} else {
			fmt.Printf("note: known finding %s no longer reproduces with its canonical reproducer\n", f.ID)
		}
	}

	// verdict
	newViol := 0
	for _, vd := range verdicts {
		if vd.known != "" {
			if _, ok := knownLines[vd.known]; !ok {
				for _, f := range props.Known() {
					if f.ID == vd.known {
						knownLines[f.ID] = fmt.Sprintf("KNOWN-FINDING: property=%s %s: %s", prop, f.ID, f.What)
					}
				}
			}
			continue
		}
		newViol++
	}
	newViol += len(raceViol)
	ids := make([]string, 0, len(knownLines))
	for id := range knownLines {
		ids = append(ids, id)
	}
	sort.Strings(ids)
	for _, id := range ids {
		fmt.Println(knownLines[id])
	}

	// evidence
	wall := time.Since(start).Seconds()
	cov := map[string]any{
		"evaluations":          agg.Evals,
		"distinct_nontrivial":  len(distinct),
		"rule":                 info.Rule,
		"samples":              agg.Samples,
		"runs":                 agg.Runs,
		"runs_per_hour":        int(float64(agg.Runs) / exploreWall * 3600),
		"evaluations_per_hour": int(float64(agg.Evals) / exploreWall * 3600),
		"workers":              *jobs,
		"budget_s":             bud,
		"fault_kinds_fired":    agg.Faults,
		"reach_probes":         agg.Probes,
		"real_vs_stub":         info.RealStub,
		"violations_of_other_properties_seen_not_reported_here": agg.OtherProps,
		"known_findings_reported":                               ids,
	}
	if prop == "C03" {
		cov["race_arm_runs"] = raceRuns
		cov["race_arm"] = "free-running (no scheduler) execution of the same seeded client programs in a -race build; verdict = race detector reports with a bbolt frame on top; replay is best-effort"
	}
	if agg.Decisions > 0 {
		cov["scheduling_decisions"] = agg.Decisions
		cov["distinct_interleavings"] = len(inter)
		cov["simulated_time_s"] = float64(agg.SimTimeNS) / 1e9
	}
	if len(agg.Samples) == 0 {
		cov["samples"] = []any{"no sample recorded"}
	}
	var zero []string
	for k, v := range agg.Probes {
		if v == 0 {
			zero = append(zero, k)
		}
	}
	if len(zero) > 0 {
		cov["probes_stuck_at_zero"] = zero
	}
	if len(harnessTrouble) > 0 {
		cov["harness_trouble"] = harnessTrouble
	}
	if len(agg.HarnessErrs) > 0 {
		cov["harness_errors"] = agg.HarnessErrs
	}
	ev := evidence{PropertyID: prop, Tier: *tier, Seed: *seedF, Level: info.Level, Coverage: cov,
		Assumptions: info.Assume, WallS: wall, Violations: newViol}
	evDir := filepath.Join(verifDir, "evidence")
	if os.Getenv("VERIF_REPO") != "" {
		// not a run against /repo itself (seeded change / background snapshot): never the committed evidence
		evDir = filepath.Join(verifDir, "out", "evidence-other-tree")
	}
	_ = os.MkdirAll(evDir, 0755)
	eb, _ := json.MarshalIndent(ev, "", " ")
	_ = os.WriteFile(filepath.Join(evDir, prop+".json"), eb, 0644)

	fmt.Printf("%s tier=%s seed=%d runs=%d evaluations=%d distinct=%d wall=%.1fs\n", prop, *tier, *seedF, agg.Runs, agg.Evals, len(distinct), wall)
	for _, vd := range verdicts {
		if vd.known == "" {
			fmt.Printf("violation: %s/%s: %s\n", vd.v.Prop, vd.v.Class, vd.v.Msg)
			fmt.Printf("VIOLATION property=%s replay=%s\n", prop, vd.path)
		}
	}
	for _, rv := range raceViol {
		fmt.Printf("violation: C03/data-race: the race detector reports a data race inside bbolt\n")
		fmt.Printf("VIOLATION property=%s replay=%s\n", prop, rv)
	}
	if newViol > 0 {
		exit(1)
	}
	if len(harnessTrouble) > 0 || (agg.Runs == 0) || len(agg.HarnessErrs) > agg.Runs/2 {
		for _, h := range harnessTrouble {
			fmt.Println("HARNESS-TROUBLE:", h)
		}
		for _, h := range agg.HarnessErrs {
			fmt.Println("HARNESS-ERROR:", h)
		}
		exit(2)
	}
	exit(0)
}

// ---------------------------------------------------------------------------
// free-running -race arm of C03

func buildRace(scratch string) (string, string) {
	bin := filepath.Join(scratch, "race.test")
	args := append([]string{"test", "-race", "-c", "-tags", "verif", "-o", bin}, modfileArgs(scratch)...)
	cmd := exec.Command("go", append(args, "./props")...)
	cmd.Dir = verifDir
	out, err := cmd.CombinedOutput()
	if err != nil {
		return "", string(out)
	}
	return bin, ""
}

// raceInBbolt reports whether a race report's two accesses have a bbolt
// (non-harness) function on top of at least one stack.
func raceInBbolt(report string) bool {
	lines := strings.Split(report, "\n")
	for i, l := range lines {
		t := strings.TrimSpace(l)
		if strings.HasPrefix(t, "Write at") || strings.HasPrefix(t, "Read at") || strings.HasPrefix(t, "Previous write at") || strings.HasPrefix(t, "Previous read at") ||
			strings.HasPrefix(t, "Atomic") || strings.HasPrefix(t, "Previous atomic") {
			for j := i + 1; j < len(lines) && j < i+8; j++ {
				f := strings.TrimSpace(lines[j])
				if f == "" {
					break
				}
				if strings.HasPrefix(f, "go.etcd.io/bbolt") && !strings.HasPrefix(f, "go.etcd.io/bbolt/xverif") {
					return true
				}
				if strings.HasPrefix(f, "/") { // file:line of the previous frame
					continue
				}
				if !strings.HasPrefix(f, "runtime.") && !strings.HasPrefix(f, "sync") {
					// first non-runtime frame is not bbolt: look at the caller frames too
					continue
				}
			}
		}
	}
	return false
}

type raceHit struct {
	run    uint64
	report string
}

// runRace runs the race binary over run indices until the deadline.
func runRace(bin, scratch string, seed uint64, jobs int, deadline time.Time, first uint64, maxRuns int) (runs int, hits []raceHit, trouble []string) {
	type rr struct {
		id   int
		code int
		out  string
	}
	ch := make(chan rr, jobs)
	for i := 0; i < jobs; i++ {
		sp := &props.Spec{Mode: "explore", Prop: "C03", Seed: seed, First: first + uint64(i), Stride: uint64(jobs), DeadlineMS: deadline.UnixMilli(), MaxRuns: maxRuns, OutDir: scratch, ID: 500 + i}
		specPath := filepath.Join(scratch, fmt.Sprintf("rspec-%d.json", sp.ID))
		b, _ := json.Marshal(sp)
		_ = os.WriteFile(specPath, b, 0644)
		go func() {
			// hard limit: a free-running workload can block for ever on a tree that leaks a lock (that verdict
			// belongs to the scheduler arm); the worker is then killed, which is not a finding of this arm
			ctx, cancel := context.WithDeadline(context.Background(), deadline.Add(90*time.Second))
			defer cancel()
			cmd := exec.CommandContext(ctx, bin, "-test.run", "^TestRaceArm$", "-test.timeout", "0")
			cmd.Env = append(os.Environ(), "VERIF_RACE_SPEC="+specPath, "VERIF_DIR="+verifDir, "GORACE=halt_on_error=1 exitcode=66")
			cmd.Dir = scratch
			out, err := cmd.CombinedOutput()
			code := 0
			if ctx.Err() != nil {
				code = 0 // killed at the hard limit: no verdict from this worker
				out = append(out, []byte("\nrace worker killed at its hard time limit\n")...)
			} else if ee, ok := err.(*exec.ExitError); ok {
				code = ee.ExitCode()
			} else if err != nil {
				code = 2
			}
			ch <- rr{sp.ID, code, string(out)}
		}()
	}
	for i := 0; i < jobs; i++ {
		r := <-ch
		if rb, err := os.ReadFile(filepath.Join(scratch, fmt.Sprintf("race-result-%d.json", r.id))); err == nil {
			var x struct{ Runs int }
			_ = json.Unmarshal(rb, &x)
			runs += x.Runs
		}
		switch {
		case r.code == 66 && strings.Contains(r.out, "DATA RACE"):
			var run uint64
			if jb, err := os.ReadFile(filepath.Join(scratch, fmt.Sprintf("race-journal-%d", r.id))); err == nil {
				fmt.Sscan(string(jb), &run)
			}
			if raceInBbolt(r.out) {
				hits = append(hits, raceHit{run, r.out})
			} else {
				trouble = append(trouble, "race report without a bbolt frame on top (harness?): "+tail(r.out, 600))
			}
		case r.code != 0:
			trouble = append(trouble, fmt.Sprintf("race worker exit %d: %s", r.code, tail(r.out, 600)))
		}
	}
	return
}

func firstPanicLine(s string) string {
	for _, l := range strings.Split(s, "\n") {
		if strings.HasPrefix(l, "panic:") || strings.HasPrefix(l, "fatal error:") || strings.HasPrefix(l, "unexpected fault") || strings.HasPrefix(l, "SIG") {
			return l
		}
	}
	return tail(s, 200)
}

func tail(s string, n int) string {
	if len(s) > n {
		return "…" + s[len(s)-n:]
	}
	return s
}
