// Package dec is an independent reader of the published bbolt version-2 file
// layout. It is written from the format description only: encoding/binary on
// raw bytes, no import of go.etcd.io/bbolt, no unsafe. It is the trusted base
// of the checks that compare "what the file says" with "what the API says".
package dec

import (
	"bytes"
	"encoding/binary"
	"fmt"
	"sort"

	"go.etcd.io/bbolt/xverif/model"
)

const (
	Magic          = 0xED0CDAED
	Version        = 2
	PageHeaderSize = 16
	MetaSize       = 64
	BranchElemSize = 16
	LeafElemSize   = 16
	BucketHdrSize  = 16

	FlagBranch   = 0x01
	FlagLeaf     = 0x02
	FlagMeta     = 0x04
	FlagFreelist = 0x10

	BucketLeafFlag = 0x01
	NoFreelist     = 0xFFFFFFFFFFFFFFFF
)

var le = binary.LittleEndian

// Meta is a decoded 64-byte meta record.
type Meta struct {
	Valid    bool
	Why      string // reason when !Valid
	Magic    uint32
	Version  uint32
	PageSize uint32
	Flags    uint32
	Root     uint64
	Seq      uint64
	Freelist uint64
	Pgid     uint64
	Txid     uint64
	Checksum uint64
}

func fnv1a(b []byte) uint64 {
	h := uint64(14695981039346656037)
	for _, c := range b {
		h ^= uint64(c)
		h *= 1099511628211
	}
	return h
}

// ParseMeta decodes the 64-byte meta record in b (b must have >= 64 bytes).
func ParseMeta(b []byte) Meta {
	var m Meta
	if len(b) < MetaSize {
		m.Why = "short"
		return m
	}
	m.Magic = le.Uint32(b[0:])
	m.Version = le.Uint32(b[4:])
	m.PageSize = le.Uint32(b[8:])
	m.Flags = le.Uint32(b[12:])
	m.Root = le.Uint64(b[16:])
	m.Seq = le.Uint64(b[24:])
	m.Freelist = le.Uint64(b[32:])
	m.Pgid = le.Uint64(b[40:])
	m.Txid = le.Uint64(b[48:])
	m.Checksum = le.Uint64(b[56:])
	switch {
	case m.Magic != Magic:
		m.Why = "magic"
	case m.Version != Version:
		m.Why = "version"
	case m.Checksum != fnv1a(b[:56]):
		m.Why = "checksum"
	default:
		m.Valid = true
	}
	return m
}

// EncodeMeta writes m (with a fresh checksum) into b[0:64].
func EncodeMeta(b []byte, m Meta) {
	le.PutUint32(b[0:], m.Magic)
	le.PutUint32(b[4:], m.Version)
	le.PutUint32(b[8:], m.PageSize)
	le.PutUint32(b[12:], m.Flags)
	le.PutUint64(b[16:], m.Root)
	le.PutUint64(b[24:], m.Seq)
	le.PutUint64(b[32:], m.Freelist)
	le.PutUint64(b[40:], m.Pgid)
	le.PutUint64(b[48:], m.Txid)
	le.PutUint64(b[56:], fnv1a(b[:56]))
}

// Image is a file image with its detected page size and both metas.
type Image struct {
	Data     []byte
	PageSize int
	Metas    [2]Meta
}

// Load detects the page size the way the format allows: from a valid meta 0
// at offset 0, else from a valid meta 1 found at one of the candidate page
// sizes 1 KiB … 16 MiB. hint is the page size to assume for locating meta 1
// when only meta 1 is needed to be located via hint (0: none).
func Load(data []byte) (*Image, error) {
	im := &Image{Data: data}
	if len(data) >= PageHeaderSize+MetaSize {
		m0 := ParseMeta(data[PageHeaderSize:])
		if m0.Valid && m0.PageSize > 0 {
			im.PageSize = int(m0.PageSize)
		}
	}
	if im.PageSize == 0 {
		for i := 0; i <= 14; i++ {
			ps := 1024 << uint(i)
			if ps+PageHeaderSize+MetaSize > len(data) {
				break
			}
			m1 := ParseMeta(data[ps+PageHeaderSize:])
			if m1.Valid && int(m1.PageSize) == ps {
				im.PageSize = ps
				break
			}
		}
	}
	if im.PageSize == 0 {
		return nil, fmt.Errorf("no valid meta page found")
	}
	if len(data) < 2*im.PageSize {
		// meta 1 is not fully inside the file
		if len(data) >= PageHeaderSize+MetaSize {
			im.Metas[0] = ParseMeta(data[PageHeaderSize:])
		}
		im.Metas[1] = Meta{Why: "short"}
		return im, nil
	}
	im.Metas[0] = ParseMeta(data[PageHeaderSize:])
	im.Metas[1] = ParseMeta(data[im.PageSize+PageHeaderSize:])
	return im, nil
}

// Winner returns the index of the valid meta with the highest txid.
func (im *Image) Winner() (int, bool) {
	a, b := im.Metas[0], im.Metas[1]
	switch {
	case a.Valid && b.Valid:
		if b.Txid > a.Txid {
			return 1, true
		}
		return 0, true
	case a.Valid:
		return 0, true
	case b.Valid:
		return 1, true
	}
	return -1, false
}

// Problem is one accounting / structural finding.
type Problem struct {
	Class string // unreachable-unfreed, reachable-freed, multi-ref, double-free, bad-type, key-order, bounds, beyond-hwm, file-short, bad-id, freelist
	Page  uint64
	Msg   string
}

func (p Problem) String() string { return fmt.Sprintf("%s page=%d %s", p.Class, p.Page, p.Msg) }

// Shape collects tree-shape facts used as reach probes.
type Shape struct {
	MaxDepth      int
	BranchPages   int
	LeafPages     int
	OverflowPages int
	InlineBuckets int
	PagedBuckets  int
	Keys          int
}

// Result is everything decoded from one meta of one image.
type Result struct {
	Meta          Meta
	Root          *model.Bucket
	Reach         map[uint64]int // page id -> number of references (continuation pages included)
	Heads         map[uint64]uint16
	FreelistPages []uint64
	FreeIDs       []uint64 // ids listed on the freelist page (nil when not persisted)
	HasFreelist   bool
	Problems      []Problem
	Shape         Shape
	Fatal         string // non-empty when the tree could not be walked at all
}

// FreeSet returns the ids that are free in this version: the persisted list,
// or, when the list is not persisted, every id in [2,hwm) that is not
// reachable.
func (r *Result) FreeSet() map[uint64]bool {
	s := map[uint64]bool{}
	if r.HasFreelist {
		for _, id := range r.FreeIDs {
			s[id] = true
		}
		return s
	}
	for id := uint64(2); id < r.Meta.Pgid; id++ {
		if r.Reach[id] == 0 {
			s[id] = true
		}
	}
	return s
}

// UsedSet returns the pages that make up this version: reachable tree and
// overflow pages plus the freelist page(s).
func (r *Result) UsedSet() map[uint64]bool {
	s := map[uint64]bool{}
	for id := range r.Reach {
		s[id] = true
	}
	for _, id := range r.FreelistPages {
		s[id] = true
	}
	return s
}

// Clean reports whether no problem was found.
func (r *Result) Clean() bool { return r.Fatal == "" && len(r.Problems) == 0 }

func (r *Result) ProblemString() string {
	if r.Fatal != "" {
		return "fatal: " + r.Fatal
	}
	var sb bytes.Buffer
	for i, p := range r.Problems {
		if i >= 8 {
			fmt.Fprintf(&sb, "… (%d problems)", len(r.Problems))
			break
		}
		sb.WriteString(p.String())
		sb.WriteString("; ")
	}
	return sb.String()
}

type walker struct {
	im  *Image
	ps  int
	res *Result
}

type pageHdr struct {
	id       uint64
	flags    uint16
	count    uint16
	overflow uint32
}

func (w *walker) problem(class string, page uint64, f string, a ...any) {
	w.res.Problems = append(w.res.Problems, Problem{class, page, fmt.Sprintf(f, a...)})
}

// page returns the bytes of page id including its overflow, or nil.
func (w *walker) page(id uint64) (pageHdr, []byte, bool) {
	var h pageHdr
	off := id * uint64(w.ps)
	if id >= w.res.Meta.Pgid {
		w.problem("beyond-hwm", id, "page id at or above high-water mark %d", w.res.Meta.Pgid)
		return h, nil, false
	}
	if off+uint64(w.ps) > uint64(len(w.im.Data)) {
		w.problem("file-short", id, "page starts beyond end of file (%d bytes)", len(w.im.Data))
		return h, nil, false
	}
	b := w.im.Data[off:]
	h.id = le.Uint64(b[0:])
	h.flags = le.Uint16(b[8:])
	h.count = le.Uint16(b[10:])
	h.overflow = le.Uint32(b[12:])
	end := off + uint64(w.ps)*(uint64(h.overflow)+1)
	if id+uint64(h.overflow) >= w.res.Meta.Pgid {
		w.problem("beyond-hwm", id, "overflow %d runs past high-water mark %d", h.overflow, w.res.Meta.Pgid)
		return h, nil, false
	}
	if end > uint64(len(w.im.Data)) {
		w.problem("file-short", id, "overflow %d runs past end of file", h.overflow)
		return h, nil, false
	}
	if h.id != id {
		w.problem("bad-id", id, "page header says id %d", h.id)
	}
	return h, w.im.Data[off:end], true
}

// Decode walks the version described by meta index mi.
func (im *Image) Decode(mi int) *Result {
	res := &Result{Meta: im.Metas[mi], Reach: map[uint64]int{}, Heads: map[uint64]uint16{}}
	w := &walker{im: im, ps: im.PageSize, res: res}
	m := res.Meta
	if !m.Valid {
		res.Fatal = "meta invalid: " + m.Why
		return res
	}
	if int(m.PageSize) != im.PageSize {
		res.Fatal = fmt.Sprintf("meta page size %d != detected %d", m.PageSize, im.PageSize)
		return res
	}
	if m.Pgid < 2 {
		res.Fatal = "high-water mark below 2"
		return res
	}
	if uint64(len(im.Data)) < m.Pgid*uint64(im.PageSize) {
		w.problem("file-short", 0, "file length %d < high-water mark %d × page size %d", len(im.Data), m.Pgid, im.PageSize)
	}
	// pages 0 and 1 are pages of type meta (the page header is not covered by the record's checksum, so a
	// valid record says nothing about it)
	for id := uint64(0); id < 2; id++ {
		if off := id * uint64(im.PageSize); off+PageHeaderSize <= uint64(len(im.Data)) {
			// (only values that are no page type at all are counted: the integrity check being judged does not
			// look at which of the valid types a meta page carries, and the property lists "invalid type" only)
			if fl := le.Uint16(im.Data[off+8:]); fl != FlagMeta && fl != FlagBranch && fl != FlagLeaf && fl != FlagFreelist {
				w.problem("bad-type", id, "meta page has flags %#x", fl)
			}
		}
	}
	// freelist
	if m.Freelist != NoFreelist {
		res.HasFreelist = true
		h, b, ok := w.page(m.Freelist)
		if ok {
			if h.flags != FlagFreelist {
				w.problem("bad-type", m.Freelist, "freelist page has flags %#x", h.flags)
			} else {
				for i := uint64(0); i <= uint64(h.overflow); i++ {
					res.FreelistPages = append(res.FreelistPages, m.Freelist+i)
				}
				n := uint64(h.count)
				pos := uint64(PageHeaderSize)
				if h.count == 0xFFFF {
					if len(b) < PageHeaderSize+8 {
						w.problem("freelist", m.Freelist, "no room for extended count")
						n = 0
					} else {
						n = le.Uint64(b[pos:])
						pos += 8
					}
				}
				if pos+n*8 > uint64(len(b)) {
					w.problem("freelist", m.Freelist, "%d ids do not fit in %d bytes", n, len(b))
				} else {
					res.FreeIDs = make([]uint64, 0, n)
					var prev uint64
					for i := uint64(0); i < n; i++ {
						id := le.Uint64(b[pos+i*8:])
						if i > 0 && id < prev {
							w.problem("freelist", m.Freelist, "ids not sorted at index %d", i)
						}
						prev = id
						res.FreeIDs = append(res.FreeIDs, id)
					}
				}
			}
		}
	}
	// tree
	res.Root = &model.Bucket{Seq: m.Seq, M: map[string]*model.Entry{}}
	if m.Root == 0 {
		res.Fatal = "root bucket has page id 0"
		return res
	}
	w.walkTree(m.Root, res.Root, 1, nil, nil)
	w.account()
	return res
}

// walkTree walks the B+tree rooted at page id into bucket b. lo/hi bound the
// keys allowed in this subtree (nil: unbounded).
func (w *walker) walkTree(id uint64, b *model.Bucket, depth int, lo, hi []byte) {
	if w.res.Reach[id] > 0 {
		// already visited: count the extra reference, do not recurse again
		w.res.Reach[id]++
		w.problem("multi-ref", id, "page referenced more than once")
		return
	}
	h, pg, ok := w.page(id)
	if !ok {
		return
	}
	for i := uint64(0); i <= uint64(h.overflow); i++ {
		if i > 0 && w.res.Reach[id+i] > 0 {
			w.problem("multi-ref", id+i, "continuation page also referenced elsewhere")
		}
		w.res.Reach[id+i]++
	}
	w.res.Heads[id] = h.flags
	w.res.Shape.OverflowPages += int(h.overflow)
	if depth > w.res.Shape.MaxDepth {
		w.res.Shape.MaxDepth = depth
	}
	switch h.flags {
	case FlagLeaf:
		w.res.Shape.LeafPages++
		w.leaf(id, pg, int(h.count), b, depth, lo, hi)
	case FlagBranch:
		w.res.Shape.BranchPages++
		n := int(h.count)
		if n == 0 {
			w.problem("bounds", id, "branch page with no elements")
			return
		}
		if PageHeaderSize+n*BranchElemSize > len(pg) {
			w.problem("bounds", id, "branch elements run past page end")
			return
		}
		type el struct {
			key  []byte
			pgid uint64
		}
		els := make([]el, 0, n)
		for i := 0; i < n; i++ {
			eo := PageHeaderSize + i*BranchElemSize
			pos := int(le.Uint32(pg[eo:]))
			ks := int(le.Uint32(pg[eo+4:]))
			cp := le.Uint64(pg[eo+8:])
			if eo+pos < 0 || eo+pos+ks > len(pg) || ks < 0 {
				w.problem("bounds", id, "branch element %d key outside page", i)
				return
			}
			els = append(els, el{pg[eo+pos : eo+pos+ks], cp})
		}
		for i := range els {
			if i > 0 && bytes.Compare(els[i-1].key, els[i].key) >= 0 {
				w.problem("key-order", id, "branch keys out of order at index %d", i)
			}
		}
		if lo != nil && bytes.Compare(els[0].key, lo) < 0 {
			w.problem("key-order", id, "first branch key below parent separator")
		}
		if hi != nil && bytes.Compare(els[n-1].key, hi) >= 0 {
			w.problem("key-order", id, "last branch key not below next separator")
		}
		for i := range els {
			clo := els[i].key
			chi := hi
			if i+1 < n {
				chi = els[i+1].key
			}
			w.walkTree(els[i].pgid, b, depth+1, clo, chi)
		}
	default:
		w.problem("bad-type", id, "page in tree has flags %#x", h.flags)
	}
}

func (w *walker) leaf(id uint64, pg []byte, n int, b *model.Bucket, depth int, lo, hi []byte) {
	if PageHeaderSize+n*LeafElemSize > len(pg) {
		w.problem("bounds", id, "leaf elements run past page end")
		return
	}
	var prev []byte
	for i := 0; i < n; i++ {
		eo := PageHeaderSize + i*LeafElemSize
		fl := le.Uint32(pg[eo:])
		pos := int(le.Uint32(pg[eo+4:]))
		ks := int(le.Uint32(pg[eo+8:]))
		vs := int(le.Uint32(pg[eo+12:]))
		if pos < 0 || ks < 0 || vs < 0 || eo+pos+ks+vs > len(pg) || eo+pos+ks+vs < 0 {
			w.problem("bounds", id, "leaf element %d outside page", i)
			return
		}
		k := pg[eo+pos : eo+pos+ks]
		v := pg[eo+pos+ks : eo+pos+ks+vs]
		if i > 0 && bytes.Compare(prev, k) >= 0 {
			w.problem("key-order", id, "leaf keys out of order at index %d", i)
		}
		if lo != nil && bytes.Compare(k, lo) < 0 {
			w.problem("key-order", id, "leaf key %d below parent separator", i)
		}
		if hi != nil && bytes.Compare(k, hi) >= 0 {
			w.problem("key-order", id, "leaf key %d not below next separator", i)
		}
		prev = k
		w.res.Shape.Keys++
		if _, dup := b.M[string(k)]; dup {
			w.problem("key-order", id, "duplicate key %q", k)
			continue
		}
		if fl&BucketLeafFlag != 0 {
			if len(v) < BucketHdrSize {
				w.problem("bounds", id, "bucket value of %d bytes", len(v))
				continue
			}
			root := le.Uint64(v[0:])
			child := &model.Bucket{Seq: le.Uint64(v[8:]), M: map[string]*model.Entry{}}
			b.M[string(k)] = &model.Entry{B: child}
			if root == 0 {
				w.res.Shape.InlineBuckets++
				ip := v[BucketHdrSize:]
				if len(ip) < PageHeaderSize {
					w.problem("bounds", id, "inline bucket without page header")
					continue
				}
				iflags := le.Uint16(ip[8:])
				icount := int(le.Uint16(ip[10:]))
				if iflags != FlagLeaf {
					w.problem("bad-type", id, "inline bucket page has flags %#x", iflags)
					continue
				}
				w.leaf(id, ip, icount, child, depth+1, nil, nil)
			} else {
				w.res.Shape.PagedBuckets++
				w.walkTree(root, child, depth+1, nil, nil)
			}
		} else {
			val := make([]byte, len(v))
			copy(val, v)
			b.M[string(k)] = &model.Entry{Val: val}
		}
	}
}

// account classifies every page below the high-water mark.
func (w *walker) account() {
	r := w.res
	free := map[uint64]int{}
	for _, id := range r.FreeIDs {
		free[id]++
	}
	flp := map[uint64]bool{}
	for _, id := range r.FreelistPages {
		flp[id] = true
	}
	ids := make([]uint64, 0, len(free))
	for id := range free {
		ids = append(ids, id)
	}
	sort.Slice(ids, func(i, j int) bool { return ids[i] < ids[j] })
	for _, id := range ids {
		if free[id] > 1 {
			w.problem("double-free", id, "listed %d times as free", free[id])
		}
		if id < 2 || id >= r.Meta.Pgid {
			w.problem("freelist", id, "free id outside [2,%d)", r.Meta.Pgid)
		}
		if flp[id] {
			w.problem("reachable-freed", id, "freelist page lists itself as free")
		}
	}
	for id := uint64(2); id < r.Meta.Pgid; id++ {
		reach := r.Reach[id]
		switch {
		case flp[id] && reach > 0:
			w.problem("multi-ref", id, "freelist page is also reachable from the tree")
		case flp[id]:
		case reach > 0 && free[id] > 0:
			w.problem("reachable-freed", id, "reachable and listed free")
		case reach == 0 && free[id] == 0 && r.HasFreelist:
			w.problem("unreachable-unfreed", id, "neither reachable nor free")
		}
	}
}

// PageType returns the type name of the page head at id as the published
// format defines it ("branch", "leaf", "meta", "freelist", else "unknown<xx>").
func (im *Image) PageType(id uint64) string {
	off := id * uint64(im.PageSize)
	if off+PageHeaderSize > uint64(len(im.Data)) {
		return "out-of-file"
	}
	fl := le.Uint16(im.Data[off+8:])
	switch {
	case fl&FlagBranch != 0:
		return "branch"
	case fl&FlagLeaf != 0:
		return "leaf"
	case fl&FlagMeta != 0:
		return "meta"
	case fl&FlagFreelist != 0:
		return "freelist"
	}
	return fmt.Sprintf("unknown<%02x>", fl)
}
