package dec

import (
	"sort"

	"go.etcd.io/bbolt/xverif/model"
)

// An independent *writer* of the published version-2 layout. Like the reader
// it is written from the format description only. It deliberately makes
// layout choices that the current bbolt writer never makes but that the
// format allows and other/older writers of the same format may make:
// arbitrary fill of leaf and branch pages, pages placed anywhere below the
// high-water mark with free gaps between them, a freelist page at any
// position (or none), several elements on a page that spills into overflow
// pages, gaps between the key/value bytes of neighbouring elements, inline
// or paged representation of small buckets, a file longer than the
// high-water mark, and a winning meta in either slot.

// EncOpts steers the layout. Choose(n) returns a value in [0,n) (n >= 1);
// a Choose that always returns 0 yields the plainest layout.
type EncOpts struct {
	PageSize        int
	Txid            uint64
	Choose          func(n int) int
	PersistFreelist bool
	Scatter         bool // leave free gaps between allocated pages
	GapData         bool // leave gaps between the data bytes of elements
	NeverInline     bool // page every non-empty bucket
	TailPages       int  // pages of the file beyond the high-water mark
}

// EncInfo reports what was laid out.
type EncInfo struct {
	Hwm      uint64
	Free     []uint64
	Freelist uint64
	Root     uint64
	Leaves   int
	Branches int
	Overflow int
	Inline   int
}

type encItem struct {
	flags uint32
	key   []byte
	val   []byte
}

type encChild struct {
	key  []byte
	pgid uint64
}

type encoder struct {
	o     EncOpts
	ps    int
	next  uint64
	free  []uint64
	pages map[uint64][]byte // start id -> bytes (multiple of page size)
	info  EncInfo
}

func (e *encoder) choose(n int) int {
	if n <= 1 || e.o.Choose == nil {
		return 0
	}
	v := e.o.Choose(n)
	if v < 0 || v >= n {
		return 0
	}
	return v
}

// alloc hands out n contiguous page ids.
func (e *encoder) alloc(n int) uint64 {
	if e.o.Scatter {
		for skip := e.choose(4); skip > 0 && skip < 4; skip-- {
			// (choose(4) == 0 three times out of four would be nicer; keep gaps frequent but short)
			if e.choose(2) == 0 {
				break
			}
			e.free = append(e.free, e.next)
			e.next++
		}
	}
	id := e.next
	e.next += uint64(n)
	return id
}

func putHeader(b []byte, id uint64, flags uint16, count int, overflow int) {
	le.PutUint64(b[0:], id)
	le.PutUint16(b[8:], flags)
	le.PutUint16(b[10:], uint16(count))
	le.PutUint32(b[12:], uint32(overflow))
}

// leafBytes lays out a leaf page body (header + elements + data) for items; gap > 0 leaves that many
// unused bytes between the data of neighbouring elements.
func leafSize(items []encItem, gap int) int {
	n := PageHeaderSize + LeafElemSize*len(items)
	for _, it := range items {
		n += len(it.key) + len(it.val) + gap
	}
	return n
}

func encodeLeaf(buf []byte, id uint64, items []encItem, overflow int, gap int) {
	putHeader(buf, id, FlagLeaf, len(items), overflow)
	data := PageHeaderSize + LeafElemSize*len(items)
	for i, it := range items {
		el := PageHeaderSize + LeafElemSize*i
		data += gap
		le.PutUint32(buf[el+0:], it.flags)
		le.PutUint32(buf[el+4:], uint32(data-el))
		le.PutUint32(buf[el+8:], uint32(len(it.key)))
		le.PutUint32(buf[el+12:], uint32(len(it.val)))
		copy(buf[data:], it.key)
		data += len(it.key)
		copy(buf[data:], it.val)
		data += len(it.val)
	}
}

func branchSize(ch []encChild, gap int) int {
	n := PageHeaderSize + BranchElemSize*len(ch)
	for _, c := range ch {
		n += len(c.key) + gap
	}
	return n
}

func encodeBranch(buf []byte, id uint64, ch []encChild, overflow int, gap int) {
	putHeader(buf, id, FlagBranch, len(ch), overflow)
	data := PageHeaderSize + BranchElemSize*len(ch)
	for i, c := range ch {
		el := PageHeaderSize + BranchElemSize*i
		data += gap
		le.PutUint32(buf[el+0:], uint32(data-el))
		le.PutUint32(buf[el+4:], uint32(len(c.key)))
		le.PutUint64(buf[el+8:], c.pgid)
		copy(buf[data:], c.key)
		data += len(c.key)
	}
}

func (e *encoder) gap() int {
	if e.o.GapData {
		return e.choose(9)
	}
	return 0
}

// writeLeaf allocates and writes one leaf page holding items; returns its id.
func (e *encoder) writeLeaf(items []encItem) uint64 {
	gap := e.gap()
	sz := leafSize(items, gap)
	np := (sz + e.ps - 1) / e.ps
	id := e.alloc(np)
	buf := make([]byte, np*e.ps)
	encodeLeaf(buf, id, items, np-1, gap)
	e.pages[id] = buf
	e.info.Leaves++
	e.info.Overflow += np - 1
	return id
}

func (e *encoder) writeBranch(ch []encChild) uint64 {
	gap := e.gap()
	sz := branchSize(ch, gap)
	np := (sz + e.ps - 1) / e.ps
	id := e.alloc(np)
	buf := make([]byte, np*e.ps)
	encodeBranch(buf, id, ch, np-1, gap)
	e.pages[id] = buf
	e.info.Branches++
	e.info.Overflow += np - 1
	return id
}

// tree writes the B+tree for items (sorted by key) and returns the root page id.
func (e *encoder) tree(items []encItem) uint64 {
	if len(items) == 0 {
		return e.writeLeaf(nil)
	}
	var level []encChild
	for i := 0; i < len(items); {
		// page capacity for this leaf: normally one page, sometimes a page with overflow holding several elements
		capBytes := e.ps
		if e.choose(8) == 7 {
			capBytes = e.ps * (2 + e.choose(2))
		}
		want := 1 + e.choose(40) // element-count target for this leaf
		if e.choose(3) == 0 {
			want = 1 << 30 // as full as it gets
		}
		j := i
		sz := PageHeaderSize
		for j < len(items) && j-i < want && j-i < 0xFFFF {
			add := LeafElemSize + len(items[j].key) + len(items[j].val) + 8
			if j > i && sz+add > capBytes {
				break
			}
			sz += add
			j++
		}
		id := e.writeLeaf(items[i:j])
		level = append(level, encChild{items[i].key, id})
		i = j
	}
	for len(level) > 1 {
		var up []encChild
		for i := 0; i < len(level); {
			want := 2 + e.choose(30)
			if e.choose(3) == 0 {
				want = 1 << 30
			}
			j := i
			sz := PageHeaderSize
			for j < len(level) && j-i < want && j-i < 0xFFFF {
				add := BranchElemSize + len(level[j].key) + 8
				if j-i >= 2 && sz+add > e.ps {
					break
				}
				sz += add
				j++
			}
			if len(level)-j == 1 {
				j = len(level) // never leave a single child for the last branch page
			}
			id := e.writeBranch(level[i:j])
			up = append(up, encChild{level[i].key, id})
			i = j
		}
		level = up
	}
	return level[0].pgid
}

// bucket encodes b and returns the bytes of its value as stored in the parent leaf: the 16-byte bucket header
// followed, for an inline bucket, by its leaf page.
func (e *encoder) bucket(b *model.Bucket) []byte {
	items, hasNested := e.items(b)
	hdr := make([]byte, BucketHdrSize)
	le.PutUint64(hdr[8:], b.Seq)
	inlineSz := leafSize(items, 0)
	canInline := !hasNested && inlineSz <= e.ps/4
	if len(items) == 0 || (canInline && !e.o.NeverInline && e.choose(3) != 2) {
		// inline: root page id 0, the leaf page follows the header
		pg := make([]byte, inlineSz)
		encodeLeaf(pg, 0, items, 0, 0)
		e.info.Inline++
		return append(hdr, pg...)
	}
	root := e.tree(items)
	le.PutUint64(hdr[0:], root)
	return hdr
}

func (e *encoder) items(b *model.Bucket) (items []encItem, hasNested bool) {
	keys := make([]string, 0, len(b.M))
	for k := range b.M {
		keys = append(keys, k)
	}
	sort.Strings(keys)
	for _, k := range keys {
		en := b.M[k]
		if en.B != nil {
			hasNested = true
			items = append(items, encItem{flags: BucketLeafFlag, key: []byte(k), val: e.bucket(en.B)})
		} else {
			items = append(items, encItem{key: []byte(k), val: en.Val})
		}
	}
	return items, hasNested
}

// Encode lays root out as a complete version-2 database file.
func Encode(root *model.Bucket, o EncOpts) ([]byte, *EncInfo) {
	if o.Txid < 1 {
		o.Txid = 1
	}
	e := &encoder{o: o, ps: o.PageSize, next: 2, pages: map[uint64][]byte{}}
	items, _ := e.items(root)
	rootID := e.tree(items)
	e.info.Root = rootID
	// freelist page
	flID := uint64(NoFreelist)
	if o.PersistFreelist {
		// the list is known only after its own page has been placed: reserve generously
		n := len(e.free) + 8
		np := (PageHeaderSize + 8*n + e.ps - 1) / e.ps
		flID = e.alloc(np)
		free := append([]uint64(nil), e.free...)
		sort.Slice(free, func(i, j int) bool { return free[i] < free[j] })
		buf := make([]byte, np*e.ps)
		putHeader(buf, flID, FlagFreelist, len(free), np-1)
		for i, id := range free {
			le.PutUint64(buf[PageHeaderSize+8*i:], id)
		}
		e.pages[flID] = buf
	}
	if o.Scatter && e.choose(2) == 1 {
		// free pages right below the high-water mark
		for k := 1 + e.choose(3); k > 0; k-- {
			e.free = append(e.free, e.next)
			e.next++
		}
		if o.PersistFreelist {
			// re-encode the list with the trailing ids (the reserve above covers them)
			free := append([]uint64(nil), e.free...)
			sort.Slice(free, func(i, j int) bool { return free[i] < free[j] })
			buf := e.pages[flID]
			ov := len(buf)/e.ps - 1
			for i := range buf {
				buf[i] = 0
			}
			putHeader(buf, flID, FlagFreelist, len(free), ov)
			for i, id := range free {
				le.PutUint64(buf[PageHeaderSize+8*i:], id)
			}
		}
	}
	hwm := e.next
	file := make([]byte, (int(hwm)+o.TailPages)*e.ps)
	for id, b := range e.pages {
		copy(file[int(id)*e.ps:], b)
	}
	// free pages carry whatever an earlier transaction left there: a stale leaf header is typical
	for _, id := range e.free {
		putHeader(file[int(id)*e.ps:], id, FlagLeaf, 0, 0)
	}
	for slot := 0; slot < 2; slot++ {
		txid := o.Txid
		if uint64(slot) != o.Txid%2 {
			txid = o.Txid - 1
		}
		pg := file[slot*e.ps:]
		putHeader(pg, uint64(slot), FlagMeta, 0, 0)
		EncodeMeta(pg[PageHeaderSize:], Meta{Magic: Magic, Version: Version, PageSize: uint32(e.ps), Root: rootID, Seq: root.Seq,
			Freelist: flID, Pgid: hwm, Txid: txid})
	}
	e.info.Hwm = hwm
	e.info.Freelist = flID
	e.info.Free = append([]uint64(nil), e.free...)
	sort.Slice(e.info.Free, func(i, j int) bool { return e.info.Free[i] < e.info.Free[j] })
	return file, &e.info
}
