#!/usr/bin/env python3
"""mkwave.py <seed-id> [...] : prepares a wave of seeded-change requests. For every id (e.g. C01h) it creates the
scratch worktree /tmp/wt-<id> of /repo, the deliverables directory /tmp/mut-<id> and the prompt /tmp/prompt-<id>.txt
(seedprompt.py with the one-line ideas already used for that property, taken from mkseedtable.py's SUMMARY).
A fresh sub-agent is then told only: "Read /tmp/prompt-<id>.txt and carry out the task it describes"."""
import sys, re, subprocess, os
src = open('/verif/mkseedtable.py').read()
m = re.search(r'SUMMARY = \{.*?\n\}', src, re.S)
ns = {}
exec(m.group(0), ns)
S = ns['SUMMARY']
# ideas whose patch files were lost (described in DESIGN 11.9), kept here so that they are not asked for again
EXTRA = {'C01': ["the final fdatasync of a commit moved behind the release of the writer lock"],
         'C18': ["a MaxSize below one page is rounded down to 0 = no limit"],
         'C19': ["a page referenced from two different buckets' trees is not reported (per-bucket visited set)"]}
for sid in sys.argv[1:]:
    prop = sid[:3]
    avoid = [v for k, v in sorted(S.items()) if k.startswith(prop)] + EXTRA.get(prop, [])
    out = subprocess.run(['python3', '/verif/seedprompt.py', sid] + avoid, capture_output=True, text=True).stdout
    open(f'/tmp/prompt-{sid}.txt', 'w').write(out)
    subprocess.run(['git', '-C', '/repo', 'worktree', 'add', '-q', '--detach', f'/tmp/wt-{sid}', 'HEAD'])
    os.makedirs(f'/tmp/mut-{sid}', exist_ok=True)
    print(sid, len(avoid), 'ideas to avoid;', len(out), 'bytes of prompt')
