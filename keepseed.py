#!/usr/bin/env python3
"""keepseed.py <id> <property> <needs> -- <what-was-run / caught-by lines...>
Copies a confirmed seeded change from /tmp/mut-<id> into /verif/seeded/<id>/ with meta.json."""
import sys, os, shutil, json, glob, subprocess
sid, prop, needs = sys.argv[1], sys.argv[2], sys.argv[3]
ran = sys.argv[5:] if len(sys.argv) > 5 else []
src = f"/tmp/mut-{sid}"
dst = f"/verif/seeded/{sid}"
os.makedirs(dst, exist_ok=True)
for f in glob.glob(src + "/*"):
    b = os.path.basename(f)
    if os.path.isdir(f) or b.endswith(".log") or os.path.getsize(f) > 200_000:
        continue
    shutil.copy(f, dst)
conf = open(f"/tmp/confirm-{sid}.log").read() if os.path.exists(f"/tmp/confirm-{sid}.log") else ""
result = [l for l in conf.splitlines() if l.startswith("RESULT") or l.startswith("demo rc")]
commit = subprocess.run(["git","-C","/repo","rev-parse","--short","HEAD"],capture_output=True,text=True).stdout.strip()
meta = {
  "id": sid, "breaks_property": prop, "base_commit": commit,
  "needs_to_manifest": needs,
  "confirmed": {"how": "confirmseed.sh in scratch worktree /tmp/wt-%s: patch applies and builds; demonstration fails with the change and passes without it; existing suite (go test . ./internal/... ./cmd/...) passes with it" % sid,
                "result_lines": result},
  "checks_run": ran,
}
json.dump(meta, open(dst + "/meta.json", "w"), indent=1)
print("kept", dst, result)
