#!/usr/bin/env python3
"""seedprompt.py <seed-id> [avoid-line ...] : prints the prompt given to a fresh sub-agent that is asked
for a property-breaking change.  The sub-agent sees only the property's text and its own scratch worktree."""
import json, sys
sid = sys.argv[1]
prop = sid[:3]
avoid = sys.argv[2:]
p = None
for l in open('/verif/properties.jsonl'):
    q = json.loads(l)
    if q['id'] == prop:
        p = q
env = ("export PATH=/root/go/pkg/mod/golang.org/toolchain@v0.0.1-go1.25.11.linux-amd64/bin:$PATH "
       "GOTOOLCHAIN=local GOFLAGS=-mod=mod GOPROXY=off GOSUMDB=off CGO_ENABLED=1")
out = f"""You are working on a scratch git worktree of the Go project etcd-io/bbolt (an embedded key/value store: copy-on-write B+tree in one mmap'd file, dual meta pages, single-writer/multi-reader transactions, page freelist). Your worktree is /tmp/wt-{sid}. Work ONLY inside /tmp/wt-{sid} and /tmp/mut-{sid}. Do not read, list or modify /repo or /verif or any other /tmp/wt-* or /tmp/mut-* directory, and do not commit anything. Never use `git stash` (the stash is shared by all worktrees of this repository): to set your change aside use `git diff > /tmp/mut-{sid}/patch.diff; git checkout -- .` and `git apply` to bring it back.

The sandbox is offline. Prefix every shell command that uses Go with:
  {env}
(the default `go` on PATH is too old). /dev/shm is a large tmpfs you may use for scratch database files.

TASK. Here is a semantic property that users of bbolt rely on:

  Title: {p['title']}
  Statement: {p['statement']}
  Scope: {p['quantifier']['text']}

Produce ONE small, realistic change to bbolt's non-test Go source (the kind of regression a plausible refactoring, clean-up, "optimisation" or misguided bug fix could introduce; ideally 1-15 changed lines) that BREAKS this property, while
  (a) the project still compiles (`go build ./...` and `go vet` cleanliness is not required),
  (b) the existing test suite still passes with the change: `go test -vet=off -count=1 -timeout 60m . ./internal/... ./cmd/...` (the root package takes several minutes; the tests under ./tests/... are not part of the suite; `TestDB_Open_InitialMmapSize` may be flaky under machine load and can be ignored),
  (c) the breakage needs something SPECIFIC to manifest - a particular interleaving of goroutines, a crash or I/O fault at a particular point, a multi-step sequence of operations, an unusual input or option combination, or two cooperating sites that each look fine alone. Changes that ordinary use would expose at once (every commit broken, every open fails) are not wanted.

Files `verif_on.go`, `verif_off.go`, `internal/freelist/verif_*.go` and the calls to functions named `verif...` are instrumentation guarded by the build tag `verif`; leave them alone (do not edit, remove or move those calls) and do not make the breakage depend on that tag.
{("Ideas already used by others for this property - produce something DIFFERENT from all of these:" + chr(10) + chr(10).join("  - " + a for a in avoid) + chr(10)) if avoid else ""}
Also write a demonstration: a Go test file `zz_demo_test.go` (test function names start with `TestZZDemo`; package `bbolt_test` or `bbolt`, or put it in the package directory it needs and say so) that FAILS with your change applied and PASSES on the unchanged worktree. The demonstration may use I/O-failure tricks, goroutines, crafted files, the public API or package internals - whatever is needed - but must be deterministic enough to fail reliably with the change (say how reliably) and never fail without it.

DELIVERABLES, all in /tmp/mut-{sid}/ :
  - patch.diff : output of `git diff` for the non-test source change only (must apply with `git apply` at the root of a clean worktree; do NOT include the demo test in it)
  - zz_demo_test.go (or another *_test.go name; if it must live in a sub-package directory, name the file with that path in demo_cmd.txt and explain)
  - demo_cmd.txt : one line, the exact `go test ...` command that runs the demonstration from the worktree root (e.g. `go test -vet=off -count=1 -timeout 10m -run ZZDemo .`)
  - NOTES.md : what the change is; why it breaks the property; exactly what it needs in order to manifest; why the existing tests do not notice.

Before you finish you MUST have checked yourself, in your worktree: the demo fails with the change and passes without it, and the existing suite (command in (b)) passes with the change. Leave the worktree with the source change reverted (`git checkout -- .`); the demo test file may stay. Your final message: a five-line summary (change, needs, demo result with/without, suite result)."""
print(out)
