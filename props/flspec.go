package props

import (
	"encoding/json"
	"fmt"
	"sort"
	"unsafe"

	"go.etcd.io/bbolt/internal/common"
	fl "go.etcd.io/bbolt/internal/freelist"
	"go.etcd.io/bbolt/xverif/dec"
	"go.etcd.io/bbolt/xverif/sim"
	"go.etcd.io/bbolt/xverif/work"
)

// flspec drives both freelist backends side by side against a shadow
// specification of the allocator (C09, direct arm). The allocator has no I/O
// or clock of its own: this is seeded model-based testing of a sequential
// component, listed as such.
type flspec struct{}

func (flspec) Name() string { return "flspec" }

// flOp is one allocator operation.
type flOp struct {
	K    string   `json:"k"` // init alloc free rollback addr remr release write read reload nsreload
	Txid uint64   `json:"txid,omitempty"`
	N    int      `json:"n,omitempty"`
	Pgid uint64   `json:"pgid,omitempty"`
	Ov   int      `json:"ov,omitempty"`
	Ids  []uint64 `json:"ids,omitempty"`
}

type flExtra struct {
	Ops  []flOp `json:"ops"`
	Pick int    `json:"pick"` // hashmap span choice policy: 0 lowest 1 highest 2 tape
	Big  bool   `json:"big"`  // one scenario beyond 65534 entries
}

func (f flspec) Gen(prop, tier string, ts *sim.Tapes) *Case {
	t := ts.Get("fl")
	ex := flExtra{Pick: t.Pick(2, 1, 2)}
	universe := uint64(12 + t.Intn(60))
	n := 5 + t.Intn(60)
	if tier == "thorough" {
		n = 5 + t.Intn(200)
		ex.Big = t.Chance(1, 40)
	} else {
		ex.Big = ts.Run%997 == 31 // the count-overflow boundary also in the quick tier (about 0.1 s per scenario)
	}
	// initial free list
	var ids []uint64
	for id := uint64(2); id < universe; id++ {
		if t.Chance(1, 2) {
			ids = append(ids, id)
		}
	}
	ex.Ops = append(ex.Ops, flOp{K: "init", Ids: ids})
	// transactions as the database issues them: ReleasePendingPages at begin,
	// frees and allocations inside, then either commit (the freelist is
	// written; that image is what a later failed commit reloads) or rollback
	// (Rollback + Reload of the last committed image). Readers come and go
	// between and during transactions.
	txid := uint64(2 + t.Intn(5))
	ex.Ops = append(ex.Ops, flOp{K: "write"}) // the image of the last commit
	for i := 0; i < n; {
		ex.Ops = append(ex.Ops, flOp{K: "release"})
		k := 1 + t.Intn(8)
		for j := 0; j < k; j++ {
			i++
			switch t.Pick(6, 8, 3, 3, 1, 1) {
			case 0:
				ex.Ops = append(ex.Ops, flOp{K: "alloc", Txid: txid, N: 1 + t.Pick(6, 3, 2, 1)})
			case 1:
				ex.Ops = append(ex.Ops, flOp{K: "free", Txid: txid, Pgid: 2 + uint64(t.Intn(int(universe)+6)), Ov: t.Pick(6, 2, 1)})
			case 2:
				// a reader sees the last committed version (or an older one)
				r := txid - 1 - uint64(t.Pick(4, 1))
				if r < 1 {
					r = 1
				}
				ex.Ops = append(ex.Ops, flOp{K: "addr", Txid: r})
			case 3:
				ex.Ops = append(ex.Ops, flOp{K: "remr", Txid: uint64(t.Intn(int(txid) + 1))})
			case 4:
				ex.Ops = append(ex.Ops, flOp{K: "read"})
			case 5:
				ex.Ops = append(ex.Ops, flOp{K: "nsreload"})
			}
		}
		if t.Chance(1, 5) {
			ex.Ops = append(ex.Ops, flOp{K: "rollback", Txid: txid})
		} else {
			ex.Ops = append(ex.Ops, flOp{K: "write"})
			txid++
		}
	}
	c := &Case{Prop: prop, Engine: f.Name(), Tier: tier, Seed: ts.Seed, Run: ts.Run, Tapes: map[string][]uint64{}}
	c.Extra, _ = json.Marshal(ex)
	return c
}

// spec is the shadow specification.
type flShadow struct {
	free    map[uint64]bool
	pending map[uint64][]uint64 // txid -> ids
	alloc   map[uint64]uint64   // id -> txid that allocated it (0: unknown)
	unit    map[uint64]int      // start id -> length of the allocation unit it heads
	readers []uint64
}

func newShadow() *flShadow {
	return &flShadow{free: map[uint64]bool{}, pending: map[uint64][]uint64{}, alloc: map[uint64]uint64{}, unit: map[uint64]int{}}
}

func (s *flShadow) isPending(id uint64) bool {
	for _, ids := range s.pending {
		for _, x := range ids {
			if x == id {
				return true
			}
		}
	}
	return false
}

func (s *flShadow) pendingCount() int {
	n := 0
	for _, ids := range s.pending {
		n += len(ids)
	}
	return n
}

func (s *flShadow) all() []uint64 {
	var out []uint64
	for id := range s.free {
		out = append(out, id)
	}
	for _, ids := range s.pending {
		out = append(out, ids...)
	}
	sort.Slice(out, func(i, j int) bool { return out[i] < out[j] })
	return out
}

func (s *flShadow) hasRun(n int) bool {
	ids := make([]uint64, 0, len(s.free))
	for id := range s.free {
		ids = append(ids, id)
	}
	sort.Slice(ids, func(i, j int) bool { return ids[i] < ids[j] })
	run := 0
	for i, id := range ids {
		if i > 0 && id == ids[i-1]+1 {
			run++
		} else {
			run = 1
		}
		if run >= n {
			return true
		}
	}
	return false
}

func mkPage(size int) (*common.Page, []byte) {
	buf := make([]byte, size)
	return (*common.Page)(unsafe.Pointer(&buf[0])), buf
}

func snapshot(f fl.Interface) (free map[uint64]bool, pend map[uint64]bool) {
	fr, pe := fl.VerifSnapshot(f)
	free, pend = map[uint64]bool{}, map[uint64]bool{}
	for _, id := range fr {
		free[uint64(id)] = true
	}
	for _, ids := range pe {
		for _, id := range ids {
			pend[uint64(id)] = true
		}
	}
	return
}

func (f flspec) Run(c *Case, dir string) *Outcome {
	out := &Outcome{Evals: 1}
	var ex flExtra
	_ = json.Unmarshal(c.Extra, &ex)
	pickTape := sim.NewTape(c.Seed, c.Run, "pick")
	pick := func(n int) int {
		switch ex.Pick {
		case 1:
			return n - 1
		case 2:
			return pickTape.Intn(n)
		}
		return 0
	}
	fl.VerifPick.Store(&pick)
	defer fl.VerifPick.Store(nil)
	for bi, mk := range []func() fl.Interface{fl.NewArrayFreelist, fl.NewHashMapFreelist} {
		name := []string{"array", "hashmap"}[bi]
		if v := f.runOne(name, mk, &ex, out); v != nil {
			out.Viol = append(out.Viol, v)
			return out
		}
	}
	if ex.Big {
		for bi, mk := range []func() fl.Interface{fl.NewArrayFreelist, fl.NewHashMapFreelist} {
			if v := f.bigRoundTrip([]string{"array", "hashmap"}[bi], mk, out); v != nil {
				out.Viol = append(out.Viol, v)
				return out
			}
		}
	}
	h := uint64(len(ex.Ops))
	for _, op := range ex.Ops {
		h = mixHash(h, hashStr(op.K), op.Txid, uint64(op.N), op.Pgid)
	}
	out.Distinct = append(out.Distinct, h)
	if c.Run%97 == 0 {
		out.Sample = map[string]any{"run": c.Run, "ops": ex.Ops}
	}
	return out
}

func (f flspec) runOne(name string, mk func() fl.Interface, ex *flExtra, out *Outcome) (viol *work.Violation) {
	bad := func(i int, f string, a ...any) *work.Violation {
		return &work.Violation{Prop: "C09", Class: "spec-" + name, Msg: fmt.Sprintf("%s backend, op %d: ", name, i) + fmt.Sprintf(f, a...), Op: i}
	}
	impl := mk()
	impl.Init(nil)
	s := newShadow()
	var written []byte // last page image produced by Write
	const pageSize = 4096
	defer func() {
		if r := recover(); r != nil {
			viol = &work.Violation{Prop: "C09", Class: "panic-" + name, Msg: fmt.Sprintf("%s backend panicked: %v", name, r)}
		}
	}()
	compare := func(i int, what string) *work.Violation {
		free, pend := snapshot(impl)
		for id := range free {
			if !s.free[id] {
				return bad(i, "after %s: page %d is free in the implementation but not in the specification", what, id)
			}
		}
		for id := range s.free {
			if !free[id] {
				return bad(i, "after %s: page %d should be free but is not", what, id)
			}
		}
		if len(pend) != s.pendingCount() {
			return bad(i, "after %s: %d pending pages, specification has %d", what, len(pend), s.pendingCount())
		}
		for id := range pend {
			if !s.isPending(id) {
				return bad(i, "after %s: page %d pending in the implementation only", what, id)
			}
		}
		if impl.FreeCount() != len(s.free) || impl.PendingCount() != s.pendingCount() || impl.Count() != len(s.free)+s.pendingCount() {
			return bad(i, "after %s: counts free=%d pending=%d total=%d, specification %d/%d", what, impl.FreeCount(), impl.PendingCount(), impl.Count(), len(s.free), s.pendingCount())
		}
		all := s.all()
		dst := make([]common.Pgid, impl.Count())
		impl.Copyall(dst)
		for k := range all {
			if uint64(dst[k]) != all[k] {
				return bad(i, "after %s: Copyall[%d]=%d, specification %d", what, k, dst[k], all[k])
			}
		}
		for _, id := range all {
			if !impl.Freed(common.Pgid(id)) {
				return bad(i, "after %s: Freed(%d)=false for a free/pending page", what, id)
			}
		}
		return nil
	}
	for i, op := range ex.Ops {
		switch op.K {
		case "init":
			ids := make(common.Pgids, len(op.Ids))
			for k, id := range op.Ids {
				ids[k] = common.Pgid(id)
			}
			impl.Init(ids)
			s.free = map[uint64]bool{}
			for _, id := range op.Ids {
				s.free[id] = true
			}
		case "alloc":
			got := uint64(impl.Allocate(common.Txid(op.Txid), op.N))
			if got == 0 {
				if s.hasRun(op.N) {
					return bad(i, "Allocate(%d) returned 0 although %d consecutive free pages exist", op.N, op.N)
				}
				out.probe("alloc-none", 1)
				break
			}
			if got < 2 {
				return bad(i, "Allocate(%d) handed out page %d", op.N, got)
			}
			for k := uint64(0); k < uint64(op.N); k++ {
				if !s.free[got+k] {
					return bad(i, "Allocate(%d) returned %d but page %d was not free", op.N, got, got+k)
				}
				delete(s.free, got+k)
				s.alloc[got+k] = op.Txid
			}
			s.unit[got] = op.N
			out.probe("alloc-ok", 1)
		case "free":
			// legal only for in-use pages
			okFree := op.Pgid >= 2
			for k := uint64(0); k <= uint64(op.Ov); k++ {
				if s.free[op.Pgid+k] || s.isPending(op.Pgid+k) {
					okFree = false
				}
			}
			// a transaction never frees a page it allocated itself
			for k := uint64(0); k <= uint64(op.Ov); k++ {
				if s.alloc[op.Pgid+k] == op.Txid {
					okFree = false
				}
			}
			// a page with overflow is freed as the unit it was allocated as:
			// either exactly one earlier allocation, or pages never handed out
			// by this allocator (in use since before)
			if n, isUnit := s.unit[op.Pgid]; isUnit {
				if n != op.Ov+1 {
					okFree = false
				}
			} else {
				for k := uint64(0); k <= uint64(op.Ov); k++ {
					if _, known := s.alloc[op.Pgid+k]; known {
						okFree = false
					}
				}
			}
			if !okFree {
				break
			}
			p, _ := mkPage(pageSize)
			p.SetId(common.Pgid(op.Pgid))
			p.SetOverflow(uint32(op.Ov))
			impl.Free(common.Txid(op.Txid), p)
			for k := uint64(0); k <= uint64(op.Ov); k++ {
				s.pending[op.Txid] = append(s.pending[op.Txid], op.Pgid+k)
			}
			delete(s.unit, op.Pgid)
			// freed pages must not be allocatable
			out.probe("free", 1)
		case "rollback":
			// the failing-commit path: Rollback then reload of the last written page
			if written == nil {
				break
			}
			impl.Rollback(common.Txid(op.Txid))
			delete(s.pending, op.Txid)
			for id, a := range s.alloc {
				if a == op.Txid {
					delete(s.alloc, id)
					delete(s.unit, id)
				}
			}
			pg := (*common.Page)(unsafe.Pointer(&written[0]))
			impl.Reload(pg)
			// specification: free := persisted ids minus everything pending now
			ids := parseFreelistPage(written)
			s.free = map[uint64]bool{}
			for _, id := range ids {
				if !s.isPending(id) {
					s.free[id] = true
				}
			}
			out.probe("rollback+reload", 1)
		case "addr":
			impl.AddReadonlyTXID(common.Txid(op.Txid))
			s.readers = append(s.readers, op.Txid)
		case "remr":
			impl.RemoveReadonlyTXID(common.Txid(op.Txid))
			for k, r := range s.readers {
				if r == op.Txid {
					s.readers = append(s.readers[:k:k], s.readers[k+1:]...)
					break
				}
			}
		case "release":
			before, _ := snapshot(impl)
			impl.ReleasePendingPages()
			after, _ := snapshot(impl)
			// safety: a page that became free must not be visible to any registered reader
			for id := range after {
				if before[id] {
					continue
				}
				var t uint64
				found := false
				for tx, ids := range s.pending {
					for _, x := range ids {
						if x == id {
							t, found = tx, true
						}
					}
				}
				if !found {
					return bad(i, "ReleasePendingPages freed page %d which was not pending", id)
				}
				a := s.alloc[id]
				for _, r := range s.readers {
					if r >= a && r <= t-1 {
						return bad(i, "ReleasePendingPages freed page %d (allocated by tx %d, freed by tx %d) although reader %d can still see it", id, a, t, r)
					}
				}
				// move in the specification
				s.free[id] = true
				ids := s.pending[t]
				for k, x := range ids {
					if x == id {
						s.pending[t] = append(ids[:k:k], ids[k+1:]...)
						break
					}
				}
				if len(s.pending[t]) == 0 {
					delete(s.pending, t)
				}
				delete(s.alloc, id)
				out.probe("released", 1)
			}
			if len(s.readers) == 0 && s.pendingCount() != 0 {
				return bad(i, "ReleasePendingPages with no registered reader left %d pages pending", s.pendingCount())
			}
			if len(s.readers) > 0 {
				out.probe("release-with-readers", 1)
			}
		case "write":
			sz := impl.EstimatedWritePageSize()
			if sz < 16+8*impl.Count() {
				return bad(i, "EstimatedWritePageSize %d underestimates %d entries", sz, impl.Count())
			}
			p, buf := mkPage(((sz / pageSize) + 1) * pageSize)
			impl.Write(p)
			written = buf
			ids := parseFreelistPage(buf)
			all := s.all()
			if len(ids) != len(all) {
				return bad(i, "Write serialised %d ids, specification has %d free+pending", len(ids), len(all))
			}
			for k := range ids {
				if ids[k] != all[k] {
					return bad(i, "Write: id[%d]=%d, specification %d", k, ids[k], all[k])
				}
			}
			if le.Uint16(buf[8:]) != dec.FlagFreelist {
				return bad(i, "Write did not set the freelist page flag")
			}
			out.probe("write", 1)
			continue
		case "read":
			if written == nil {
				break
			}
			// a fresh instance reading the page back sees exactly the serialised set as free
			other := mk()
			other.Init(nil)
			other.Read((*common.Page)(unsafe.Pointer(&written[0])))
			ofree, opend := snapshot(other)
			ids := parseFreelistPage(written)
			if len(ofree) != len(ids) || len(opend) != 0 {
				return bad(i, "Read of a page with %d ids yields %d free / %d pending", len(ids), len(ofree), len(opend))
			}
			for _, id := range ids {
				if !ofree[id] {
					return bad(i, "Read lost id %d", id)
				}
			}
			out.probe("read", 1)
			continue
		case "reload":
			if written == nil {
				break
			}
			impl.Reload((*common.Page)(unsafe.Pointer(&written[0])))
			ids := parseFreelistPage(written)
			s.free = map[uint64]bool{}
			for _, id := range ids {
				if !s.isPending(id) {
					s.free[id] = true
				}
			}
		case "nsreload":
			all := s.all()
			ids := make(common.Pgids, len(all))
			for k, id := range all {
				ids[k] = common.Pgid(id)
			}
			impl.NoSyncReload(ids)
			s.free = map[uint64]bool{}
			for _, id := range all {
				if !s.isPending(id) {
					s.free[id] = true
				}
			}
		}
		if v := compare(i, op.K); v != nil {
			return v
		}
	}
	return nil
}

// parseFreelistPage reads the ids of a freelist page by the published layout.
func parseFreelistPage(b []byte) []uint64 {
	cnt := uint64(le.Uint16(b[10:]))
	pos := uint64(16)
	if cnt == 0xFFFF {
		cnt = le.Uint64(b[pos:])
		pos += 8
	}
	ids := make([]uint64, 0, cnt)
	for i := uint64(0); i < cnt && pos+8*i+8 <= uint64(len(b)); i++ {
		ids = append(ids, le.Uint64(b[pos+8*i:]))
	}
	return ids
}

// bigRoundTrip: more than 65534 entries (the count-overflow encoding).
func (f flspec) bigRoundTrip(name string, mk func() fl.Interface, out *Outcome) (viol *work.Violation) {
	defer func() {
		if r := recover(); r != nil {
			viol = &work.Violation{Prop: "C09", Class: "panic-" + name, Msg: fmt.Sprintf("%s backend panicked in the >65534 scenario: %v", name, r)}
		}
	}()
	// totals (free + 3 pending) on both sides of and exactly at the boundary 0xFFFF, where the count moves into the first id
	for _, n := range []int{0xFFFF - 5, 0xFFFF - 4, 0xFFFF - 3, 0xFFFF - 2, 0xFFFF, 0x10000, 70000} {
		impl := mk()
		ids := make(common.Pgids, 0, n)
		for i := 0; i < n; i++ {
			ids = append(ids, common.Pgid(2+2*i+(i%3)/2))
		}
		impl.Init(ids)
		// some pending too
		p, _ := mkPage(4096)
		p.SetId(common.Pgid(10_000_000))
		p.SetOverflow(2)
		impl.Free(7, p)
		sz := impl.EstimatedWritePageSize()
		pg, buf := mkPage(((sz / 4096) + 1) * 4096)
		impl.Write(pg)
		got := parseFreelistPage(buf)
		if len(got) != n+3 {
			return &work.Violation{Prop: "C09", Class: "spec-" + name, Msg: fmt.Sprintf("%s: %d free + 3 pending serialised as %d ids (count field %#x)", name, n, len(got), le.Uint16(buf[10:]))}
		}
		if (n+3 >= 0xFFFF) != (le.Uint16(buf[10:]) == 0xFFFF) {
			return &work.Violation{Prop: "C09", Class: "spec-" + name, Msg: fmt.Sprintf("%s: %d entries written with count field %#x", name, n+3, le.Uint16(buf[10:]))}
		}
		other := mk()
		other.Init(nil)
		other.Read(pg)
		if other.FreeCount() != n+3 {
			return &work.Violation{Prop: "C09", Class: "spec-" + name, Msg: fmt.Sprintf("%s: re-reading %d entries yields %d free pages", name, n+3, other.FreeCount())}
		}
		for k := 1; k < len(got); k++ {
			if got[k] <= got[k-1] {
				return &work.Violation{Prop: "C09", Class: "spec-" + name, Msg: fmt.Sprintf("%s: serialised ids not strictly ascending at %d", name, k)}
			}
		}
		out.probe("big-roundtrip", 1)
	}
	return nil
}

func (f flspec) Shrinks(c *Case) []*Case {
	var ex flExtra
	_ = json.Unmarshal(c.Extra, &ex)
	var out []*Case
	emit := func(ops []flOp) {
		e2 := ex
		e2.Ops = ops
		d := c.Clone()
		d.Extra, _ = json.Marshal(e2)
		out = append(out, d)
	}
	// whole transactions (from one "release" to the next), so that the
	// sequence stays one the database could issue
	var starts []int
	for i, op := range ex.Ops {
		if op.K == "release" {
			starts = append(starts, i)
		}
	}
	starts = append(starts, len(ex.Ops))
	for k := len(starts) - 2; k >= 0; k-- {
		emit(append(append([]flOp(nil), ex.Ops[:starts[k]]...), ex.Ops[starts[k+1]:]...))
	}
	// single operations inside transactions (never the write/rollback that ends one)
	for i, op := range ex.Ops {
		switch op.K {
		case "alloc", "free", "addr", "remr", "read", "nsreload":
			emit(append(append([]flOp(nil), ex.Ops[:i]...), ex.Ops[i+1:]...))
		}
	}
	if ex.Big {
		e2 := ex
		e2.Big = false
		d := c.Clone()
		d.Extra, _ = json.Marshal(e2)
		out = append(out, d)
	}
	return out
}

func init() {
	register(&Info{Prop: "C09", Engine: altEngine{[]Engine{flspec{}, flspec{}, modelsim{}, faultsim{}}}, Level: "exploration", QuickS: 40, ThoroughS: 400,
		RealStub: "real: internal/freelist array and hashmap backends (tag verif: the hashmap's 'any span' choice is lowest/highest/tape-chosen); shadow specification of the allocator written from the property statement; page images parsed by the published layout. No I/O, clock or schedule exists in this component: plain seeded model-based testing (stated plainly)",
		Rule:     "one evaluation = one seeded sequence of 5-200 allocator operations (Init, Allocate(n), Free(page+overflow), Rollback+Reload, Add/RemoveReadonlyTXID, ReleasePendingPages at transaction boundaries, Write, Read into a fresh instance, Reload, NoSyncReload) over universes of 12-72 page ids, executed on both backends; after every operation free set, pending set, counts, Freed and Copyall are compared with the specification; Allocate must return a run that was entirely free or 0 only when no run exists; released pages must be invisible to every registered reader and everything is released when there is none; some runs (1 in 40 in thorough, 1 in 997 in quick) add the count-overflow encoding scenario: lists of 65533, 65534, 65535 (the boundary itself), 65536 and more entries are written, parsed by the published rule and re-read. distinct = distinct operation sequences",
		Assume:   []string{"run indices 0,1 mod 4: direct arm as described; 2 mod 4: in-system arm - a seeded modelsim history with the freelist of the real DB wrapped by an observer (hook H7) that checks every Allocate/Free/ReleasePendingPages/Rollback+Reload result against the allocator's state before the call; 3 mod 4: the same observer during faultsim's failing commits (rollback restores the prior state)"}})
}
