package props

import (
	"bytes"
	"fmt"
	"os"
	"path/filepath"
	"sort"

	bolt "go.etcd.io/bbolt"
	"go.etcd.io/bbolt/xverif/sim"
	"go.etcd.io/bbolt/xverif/work"
)

// hugeLeaf is a C05 scenario the op alphabet does not reach: one write
// transaction inserts more keys than a page can ever index (nodes are split
// only at commit, so a single in-memory leaf holds all of them) and then
// navigates that leaf with cursors, Get and Delete - before and after commit.
func hugeLeaf(c *Case, dir string, out *Outcome) {
	path := filepath.Join(dir, "huge")
	os.Remove(path)
	defer os.Remove(path)
	t := sim.NewTape(c.Seed, c.Run, "hugeleaf")
	fail := func(class, f string, a ...any) {
		if len(out.Viol) < 3 {
			out.Viol = append(out.Viol, &work.Violation{Prop: "C05", Class: class, Msg: fmt.Sprintf(f, a...)})
		}
	}
	ps := []int{4096, 1024, 16384}[t.Pick(3, 1, 1)]
	db, err := bolt.Open(path, 0600, &bolt.Options{PageSize: ps, NoSync: true, NoFreelistSync: t.Chance(1, 2)})
	if err != nil {
		out.HarnessErr = err.Error()
		return
	}
	defer db.Close()
	n := 65536 + 1 + t.Intn(3000)
	pre := t.Intn(3) * 500 // keys committed beforehand (the leaf then starts from pages)
	key := func(i int) []byte { return []byte(fmt.Sprintf("h%07d", i*3)) }
	gap := func(i int) []byte { return []byte(fmt.Sprintf("h%07d", i*3+1)) } // sorts between key(i) and key(i+1)
	val := func(i int) []byte { return []byte{byte(i), byte(i >> 8), byte(i >> 16)} }
	if pre > 0 {
		if err := db.Update(func(tx *bolt.Tx) error {
			b, err := tx.CreateBucket([]byte("huge"))
			if err != nil {
				return err
			}
			for i := 0; i < pre; i++ {
				if err := b.Put(key(i), val(i)); err != nil {
					return err
				}
			}
			return nil
		}); err != nil {
			out.HarnessErr = err.Error()
			return
		}
	}
	deleted := map[int]bool{}
	var keys [][]byte // model: sorted keys present
	rebuild := func() {
		keys = keys[:0]
		for i := 0; i < n; i++ {
			if !deleted[i] {
				keys = append(keys, key(i))
			}
		}
	}
	check := func(b *bolt.Bucket, when string) {
		Tick()
		cur := b.Cursor()
		// full forward walk
		i := 0
		for k, v := cur.First(); k != nil; k, v = cur.Next() {
			if i >= len(keys) || !bytes.Equal(k, keys[i]) {
				want := "<end>"
				if i < len(keys) {
					want = string(keys[i])
				}
				fail("cursor-key", "%s: forward walk position %d of %d: got key %q, want %q", when, i, len(keys), k, want)
				return
			}
			if v == nil {
				fail("cursor-value", "%s: forward walk position %d: nil value for key %q", when, i, k)
				return
			}
			i++
			if i > len(keys)+2 {
				break
			}
		}
		if i != len(keys) {
			fail("cursor-key", "%s: forward walk visited %d keys, the bucket holds %d", when, i, len(keys))
			return
		}
		// backward walk over the tail (positions beyond 65535 and across the boundary)
		i = len(keys) - 1
		steps := 0
		for k, _ := cur.Last(); k != nil && steps < 4000; k, _ = cur.Prev() {
			if i < 0 || !bytes.Equal(k, keys[i]) {
				fail("cursor-key", "%s: backward walk at reverse position %d: got key %q, want %q", when, len(keys)-1-i, k, keys[max(i, 0)])
				return
			}
			i--
			steps++
		}
		// seeks: exact keys and gaps, biased to the far end and to the 65535/65536 boundary
		for j := 0; j < 60; j++ {
			var idx int
			switch t.Pick(3, 3, 1) {
			case 0:
				idx = 65530 + t.Intn(12)
			case 1:
				idx = 65536 + t.Intn(n-65536)
			default:
				idx = t.Intn(n)
			}
			if idx >= n {
				idx = n - 1
			}
			var sk []byte
			if t.Chance(1, 2) {
				sk = key(idx)
			} else {
				sk = gap(idx)
			}
			at := sort.Search(len(keys), func(x int) bool { return bytes.Compare(keys[x], sk) >= 0 })
			k, _ := cur.Seek(sk)
			if at >= len(keys) {
				if k != nil {
					fail("cursor-key", "%s: Seek(%q) past the last key returned %q", when, sk, k)
					return
				}
				continue
			}
			if !bytes.Equal(k, keys[at]) {
				fail("cursor-key", "%s: Seek(%q) returned %q, the smallest key not less than it is %q (position %d)", when, sk, k, keys[at], at)
				return
			}
			// a relative move from there
			if at+1 < len(keys) {
				if k2, _ := cur.Next(); !bytes.Equal(k2, keys[at+1]) {
					fail("cursor-key", "%s: Next after Seek(%q) returned %q, want %q (position %d)", when, sk, k2, keys[at+1], at+1)
					return
				}
			}
			// Get agrees
			if g := b.Get(keys[at]); g == nil {
				fail("get-mismatch", "%s: Get(%q) returned nil for a key the cursor enumerates (position %d)", when, keys[at], at)
				return
			}
		}
		out.probe("hugeleaf-checks", 1)
	}
	err = db.Update(func(tx *bolt.Tx) error {
		b, err := tx.CreateBucketIfNotExists([]byte("huge"))
		if err != nil {
			return err
		}
		for i := pre; i < n; i++ {
			if err := b.Put(key(i), val(i)); err != nil {
				return err
			}
		}
		rebuild()
		check(b, fmt.Sprintf("write transaction holding %d uncommitted inserts in one leaf", n-pre))
		if len(out.Viol) > 0 {
			return nil
		}
		// deletions beyond position 65535, through Delete and through a cursor
		for j := 0; j < 20; j++ {
			idx := 65536 + t.Intn(n-65536)
			if deleted[idx] {
				continue
			}
			if j%2 == 0 {
				if err := b.Delete(key(idx)); err != nil {
					return err
				}
			} else {
				cur := b.Cursor()
				if k, _ := cur.Seek(key(idx)); bytes.Equal(k, key(idx)) {
					if err := cur.Delete(); err != nil {
						return err
					}
				} else {
					fail("cursor-key", "Seek(%q) before Cursor.Delete returned %q", key(idx), k)
					return nil
				}
			}
			deleted[idx] = true
		}
		rebuild()
		check(b, "same transaction after deletions beyond position 65535")
		return nil
	})
	if err != nil {
		fail("update-error", "%v", err)
	}
	if len(out.Viol) == 0 {
		_ = db.View(func(tx *bolt.Tx) error {
			check(tx.Bucket([]byte("huge")), "after commit")
			return nil
		})
	}
	out.Evals = 1
	out.probe("hugeleaf-runs", 1)
	out.Distinct = append(out.Distinct, mixHash(uint64(n), uint64(pre), uint64(ps), c.Run))
}
