package props

import (
	"compress/gzip"
	"crypto/sha256"
	"encoding/hex"
	"encoding/json"
	"fmt"
	"io"
	"os"
	"path/filepath"
	"testing"

	bolt "go.etcd.io/bbolt"
	"go.etcd.io/bbolt/xverif/sim"
	"go.etcd.io/bbolt/xverif/work"
)

// TestGoldenGen regenerates the golden corpus (run by hand, once, on the
// pinned build): VERIF_GOLDEN_GEN=/verif/golden go test -tags verif -run TestGoldenGen ./props
func TestGoldenGen(t *testing.T) {
	dir := os.Getenv("VERIF_GOLDEN_GEN")
	if dir == "" {
		t.Skip("set VERIF_GOLDEN_GEN")
	}
	_ = os.MkdirAll(dir, 0755)
	tmp := t.TempDir()
	var idx []goldenEntry
	add := func(name, what string, cfg work.Config, build func(e *work.Exec)) {
		path := filepath.Join(tmp, name)
		e := work.NewExec(path, cfg)
		if err := e.Open(e.DefaultOpts()); err != nil {
			t.Fatal(err)
		}
		build(e)
		if e.Failed() {
			t.Fatalf("%s: %v", name, e.Viol[0])
		}
		var hash, summary string
		_ = e.DB.View(func(tx *bolt.Tx) error {
			m := e.Dump(tx)
			hash, summary = fmt.Sprintf("%016x", m.Hash()), m.Summary()
			return nil
		})
		if err := e.Close(); err != nil {
			t.Fatal(err)
		}
		data, _ := os.ReadFile(path)
		sum := sha256.Sum256(data)
		f, _ := os.Create(filepath.Join(dir, name+".gz"))
		zw, _ := gzip.NewWriterLevel(f, gzip.BestCompression)
		_, _ = io.Copy(zw, newBytesReader(data))
		_ = zw.Close()
		_ = f.Close()
		idx = append(idx, goldenEntry{File: name + ".gz", SHA256: hex.EncodeToString(sum[:]), PageSize: cfg.PageSize, ModelHash: hash, Summary: summary, What: what})
	}
	// pick, per configuration, the first seed whose end state is rich: several
	// buckets, inline and paged ones, overflow values and a multi-level tree
	rich := func(cfg work.Config, p work.GenParams, from uint64) uint64 {
		for seed := from; seed < from+400; seed++ {
			path := filepath.Join(tmp, "probe.db")
			os.Remove(path)
			e := work.NewExec(path, cfg)
			e.FileChecks = true
			if err := e.Open(e.DefaultOpts()); err != nil {
				t.Fatal(err)
			}
			ts := sim.NewTapes(seed, 0)
			prog := work.GenProgram(ts, cfg, p)
			for i := range prog.Steps {
				if prog.Steps[i].Kind == "tx" {
					e.RunStep(i, &prog.Steps[i])
				}
			}
			sh := e.LastShape
			ok := !e.Failed() && e.Cur.KeyN() >= 60 && e.Cur.BucketN() >= 4 && sh.BranchPages >= 1 && sh.OverflowPages >= 1 && sh.InlineBuckets >= 1 && sh.PagedBuckets >= 2
			_ = e.Close()
			if ok {
				return seed
			}
		}
		t.Fatal("no rich seed found")
		return 0
	}
	seeded := func(seed uint64, p work.GenParams) func(e *work.Exec) {
		return func(e *work.Exec) {
			ts := sim.NewTapes(seed, 0)
			prog := work.GenProgram(ts, e.Cfg, p)
			for i := range prog.Steps {
				if prog.Steps[i].Kind == "tx" {
					e.RunStep(i, &prog.Steps[i])
				}
			}
		}
	}
	gp := work.GenParams{MaxSteps: 25, MaxOps: 60, NoErrors: true, OnlyCommit: true, Guards: work.Guards{NoMoveIntoDescendant: true}}
	for _, ps := range []int{1024, 4096, 16384} {
		c1 := work.Config{PageSize: ps, Freelist: "array"}
		add(fmt.Sprintf("mixed-%d.db", ps), "seeded history: inline and paged buckets, overflow values, multi-level tree, persisted freelist (array)",
			c1, seeded(rich(c1, gp, 100), gp))
		c2 := work.Config{PageSize: ps, Freelist: "hashmap", NoFreelistSync: true}
		add(fmt.Sprintf("nofreelist-%d.db", ps), "seeded history, freelist not persisted (hashmap backend)",
			c2, seeded(rich(c2, gp, 500), gp))
	}
	add("empty-4096.db", "freshly created, never written", work.Config{PageSize: 4096, Freelist: "array"}, func(e *work.Exec) {})
	add("bigfreelist-1024.db", "more than 65535 free pages at 1 KiB pages: the 0xFFFF count convention",
		work.Config{PageSize: 1024, Freelist: "array"}, func(e *work.Exec) {
			_ = e.DB.Update(func(tx *bolt.Tx) error {
				b, _ := tx.CreateBucket([]byte("big"))
				for i := 0; i < 2300; i++ {
					if err := b.Put([]byte(fmt.Sprintf("k%05d", i)), make([]byte, 30000)); err != nil {
						return err
					}
				}
				return nil
			})
			_ = e.DB.Update(func(tx *bolt.Tx) error {
				b := tx.Bucket([]byte("big"))
				for i := 0; i < 2300; i++ {
					if i%100 != 0 {
						_ = b.Delete([]byte(fmt.Sprintf("k%05d", i)))
					}
				}
				return nil
			})
			_ = e.DB.Update(func(tx *bolt.Tx) error { return tx.Bucket([]byte("big")).Put([]byte("after"), []byte("x")) })
			st := e.DB.Stats()
			if st.FreePageN+st.PendingPageN < 0xFFFF {
				t.Fatalf("only %d free pages", st.FreePageN+st.PendingPageN)
			}
		})
	b, _ := json.MarshalIndent(idx, "", " ")
	if err := os.WriteFile(filepath.Join(dir, "index.json"), b, 0644); err != nil {
		t.Fatal(err)
	}
}

type bytesReader struct {
	b []byte
	i int
}

func newBytesReader(b []byte) *bytesReader { return &bytesReader{b: b} }
func (r *bytesReader) Read(p []byte) (int, error) {
	if r.i >= len(r.b) {
		return 0, io.EOF
	}
	n := copy(p, r.b[r.i:])
	r.i += n
	return n, nil
}
