package props

import (
	"bytes"
	"encoding/binary"
	"fmt"
	"os"
	"path/filepath"
	"sort"

	bolt "go.etcd.io/bbolt"
	"go.etcd.io/bbolt/xverif/dec"
	"go.etcd.io/bbolt/xverif/model"
	"go.etcd.io/bbolt/xverif/sim"
	"go.etcd.io/bbolt/xverif/work"
)

// corruptsim injects stored-byte faults into files at rest: every byte ×
// value of each meta record (C11) and a sweep of structural corruptions with
// the independent decoder as referee (C19).
type corruptsim struct{}

func (corruptsim) Name() string { return "corruptsim" }

func (cs corruptsim) Gen(prop, tier string, ts *sim.Tapes) *Case {
	cfg := work.GenConfig(ts.Get("cfg"))
	cfg.StrictMode, cfg.Mlock = false, false
	cfg.InitialMmapSize = 0
	p := work.GenParams{MaxSteps: 6, MaxOps: 20, NoErrors: true, Guards: ActiveGuards()}
	if prop == "C19" {
		cfg.NoFreelistSync = ts.Get("swarm").Chance(1, 6)
		p.MaxSteps, p.MaxOps = 8, 40
		p.BucketHeavy = ts.Get("swarm").Chance(1, 3)
	}
	foreign := 0
	if prop == "C19" && ts.Get("swarm").Chance(1, 4) {
		// the consistent file is laid out by the independent encoder (layouts the current writer never produces):
		// the integrity check must report nothing on it, and must still find every corruption class in it
		foreign = 1
		p.OnlyCommit = true
	}
	prog := work.GenProgram(ts, cfg, p)
	// the last write activity must be a successful commit
	prog.Steps = append(prog.Steps, work.Step{Kind: "tx", Tx: &work.Txn{Mode: "update", End: "commit", Ops: []work.Op{
		{Kind: "mkbi", Key: "last"}, {Kind: "nextseq", Path: []string{"last"}}}}})
	c := &Case{Prop: prop, Engine: cs.Name(), Tier: tier, Seed: ts.Seed, Run: ts.Run, Prog: prog, Tapes: map[string][]uint64{}, Params: map[string]int{"foreign": foreign}}
	if prop == "C19" && foreign == 0 && ts.Run%8 == 5 {
		c.Params["twins"] = 1
	}
	if prop == "C11" && ts.Run%4 == 3 {
		// the cleanly written file is a hot backup (Tx.WriteTo) of the history's end state: its two meta pages
		// carry txid N and N-1 and describe the same content
		c.Params["backup_source"] = 1
	}
	return c
}

// build runs the history and returns the file image at rest plus the model
// versions.
func (cs corruptsim) build(c *Case, dir string, out *Outcome) (img []byte, e *work.Exec, ok bool) {
	path := filepath.Join(dir, "src")
	os.Remove(path)
	defer os.Remove(path)
	order := sim.NewTape(c.Seed, c.Run, "order")
	w := &sim.World{MapOrder: c.Prog.Cfg.MapOrder, Order: order}
	w.Install()
	defer sim.Uninstall()
	e = work.NewExec(path, c.Prog.Cfg)
	e.FileChecks = true
	if err := e.Open(e.DefaultOpts()); err != nil {
		out.HarnessErr = err.Error()
		return nil, nil, false
	}
	for i := range c.Prog.Steps {
		if c.Prog.Steps[i].Kind != "tx" {
			continue
		}
		e.RunStep(i, &c.Prog.Steps[i])
		if e.Failed() {
			out.Viol = e.Viol
			_ = e.Close()
			return nil, nil, false
		}
	}
	if err := e.Close(); err != nil {
		out.HarnessErr = err.Error()
		return nil, nil, false
	}
	img, err := os.ReadFile(path)
	if err != nil {
		out.HarnessErr = err.Error()
		return nil, nil, false
	}
	if c.Params["backup_source"] == 1 {
		db, oerr := bolt.Open(path, 0600, &bolt.Options{ReadOnly: true})
		if oerr != nil {
			out.HarnessErr = oerr.Error()
			return nil, nil, false
		}
		var buf bytes.Buffer
		verr := db.View(func(tx *bolt.Tx) error { _, werr := tx.WriteTo(&buf); return werr })
		_ = db.Close()
		if verr != nil {
			out.HarnessErr = verr.Error()
			return nil, nil, false
		}
		img = buf.Bytes()
		// both meta pages of the copy describe the copied state
		if e.LastTxid > 0 {
			e.Versions[e.LastTxid-1] = e.Versions[e.LastTxid]
		}
		out.probe("source-is-hot-backup", 1)
	}
	return img, e, true
}

func (cs corruptsim) Run(c *Case, dir string) *Outcome {
	out := &Outcome{}
	img, e, ok := cs.build(c, dir, out)
	if !ok {
		return out
	}
	if c.Prop == "C19" && c.Params["twins"] == 1 {
		// two buckets filled identically in one transaction (their trees are twins), some free pages on a
		// persisted freelist: the source for the "shared leaf" corruption
		if timg, ok := buildTwins(c, dir, out); ok {
			img = timg
			out.probe("twin-buckets-source", 1)
		}
	}
	if c.Prop == "C19" {
		if c.Params["foreign"] == 1 {
			lay := sim.NewTape(c.Seed, c.Run, "layout")
			fimg, _ := dec.Encode(e.Cur, dec.EncOpts{PageSize: c.Prog.Cfg.PageSize, Txid: uint64(e.LastTxid), PersistFreelist: !c.Prog.Cfg.NoFreelistSync,
				Scatter: lay.Chance(2, 3), GapData: lay.Chance(1, 3), NeverInline: lay.Chance(1, 5), Choose: func(n int) int { return lay.Intn(n) }})
			ok := false
			if im, err := dec.Load(fimg); err == nil {
				if wi, w := im.Winner(); w {
					r := im.Decode(wi)
					ok = r.Clean() && model.Diff(r.Root, e.Cur) == ""
				}
			}
			if !ok {
				out.HarnessErr = "encoder output rejected by the decoder"
				return out
			}
			img = fimg
			out.probe("foreign-layout-source", 1)
		}
		cs.runStructural(c, dir, img, e, out)
	} else {
		cs.runMeta(c, dir, img, e, out)
	}
	return out
}

// ---------------------------------------------------------------------------
// C11

type openResult struct {
	err   error
	txid  int
	dump  *model.Bucket
	check []string
	pgsz  int
	panic any
}

func tryOpen(path string, e *work.Exec, o *bolt.Options, doCheck bool) (r openResult) {
	defer func() {
		if p := recover(); p != nil {
			r.panic = p
		}
	}()
	db, err := bolt.Open(path, 0600, o)
	if err != nil {
		r.err = err
		return
	}
	defer db.Close()
	r.pgsz = db.Info().PageSize
	_ = db.View(func(tx *bolt.Tx) error {
		r.txid = tx.ID()
		r.dump = e.Dump(tx)
		if doCheck {
			for cerr := range tx.Check() {
				r.check = append(r.check, cerr.Error())
			}
		}
		return nil
	})
	return
}

func (cs corruptsim) runMeta(c *Case, dir string, img []byte, e *work.Exec, out *Outcome) {
	// the premise: a cleanly written file (at rest after a successful commit, or a hot backup) has two valid meta
	// pages - otherwise "the other meta page" is not there to fall back on
	if im0, lerr := dec.Load(img); lerr == nil {
		for mi := 0; mi < 2; mi++ {
			if !im0.Metas[mi].Valid {
				what := "file at rest after a successful commit"
				if c.Params["backup_source"] == 1 {
					what = "hot backup written by Tx.WriteTo"
				}
				out.Viol = append(out.Viol, &work.Violation{Prop: "C11", Class: "cleanly-written-file-has-invalid-meta",
					Msg: fmt.Sprintf("%s: meta page %d does not validate (%s) before anything was damaged: one damaged byte in the other meta page then makes the file unopenable", what, mi, im0.Metas[mi].Why)})
				out.Evals++
				return
			}
		}
	}
	path := filepath.Join(dir, "dmg")
	defer os.Remove(path)
	ps := c.Prog.Cfg.PageSize
	fail := func(class, f string, a ...any) {
		if len(out.Viol) < 5 {
			out.Viol = append(out.Viol, &work.Violation{Prop: "C11", Class: class, Msg: fmt.Sprintf(f, a...)})
		}
	}
	if err := os.WriteFile(path, img, 0600); err != nil {
		out.HarnessErr = err.Error()
		return
	}
	f, err := os.OpenFile(path, os.O_RDWR, 0600)
	if err != nil {
		out.HarnessErr = err.Error()
		return
	}
	defer f.Close()
	distinct := map[uint64]bool{}
	// evaluate judges the file as it is now (the damaged bytes are in place)
	evaluate := func(cur []byte, what string, rwToo bool, salt uint64) bool {
		out.Evals++
		if out.Evals%64 == 0 {
			Tick()
		}
		Journal(c, what)
		im, derr := dec.Load(cur)
		var want *model.Bucket
		wantTxid := -1
		valid := 0
		if derr == nil {
			for i := 0; i < 2; i++ {
				if im.Metas[i].Valid {
					valid++
				}
			}
			if wi, ok := im.Winner(); ok {
				wantTxid = int(im.Metas[wi].Txid)
				want = e.Versions[wantTxid]
			}
		}
		distinct[mixHash(salt, uint64(valid), uint64(wantTxid+1))] = true
		for variant := 0; variant < 3; variant++ {
			o := &bolt.Options{ReadOnly: true}
			if variant == 1 {
				o.PageSize = ps
			}
			if variant == 2 {
				// an explicit but wrong page size: detection from the file must still win
				if salt%8 != 3 {
					continue
				}
				o.PageSize = ps * 2
				if o.PageSize > 16384 {
					o.PageSize = 1024
				}
			}
			if variant == 0 && ps == os.Getpagesize() && salt%4 != 0 {
				continue // page size equals the OS page size: both variants coincide; sample
			}
			r := tryOpen(path, e, o, valid == 1)
			if r.panic != nil {
				fail("open-panics", "%s: Open panicked: %v", what, r.panic)
				return false
			}
			switch {
			case derr != nil || valid == 0:
				out.fault("both-metas-invalid", 1)
				if r.err == nil {
					fail("opened-invalid", "%s: no valid meta page remains but Open succeeded (shows txid %d)", what, r.txid)
					return false
				}
			default:
				if valid == 1 {
					out.fault("one-meta-invalid", 1)
				}
				if r.err != nil {
					fail("open-failed", "%s: one valid meta page remains (txid %d) but Open failed: %v", what, wantTxid, r.err)
					return false
				}
				if r.pgsz != ps {
					fail("page-size", "%s: detected page size %d, file uses %d", what, r.pgsz, ps)
					return false
				}
				if r.txid != wantTxid {
					fail("wrong-version", "%s: Open presents txid %d, the valid meta page holds txid %d", what, r.txid, wantTxid)
					return false
				}
				if want == nil {
					fail("unknown-version", "%s: no model version for txid %d", what, wantTxid)
					return false
				}
				if d := model.Diff(r.dump, want); d != "" {
					fail("wrong-content", "%s: content differs from the state committed as txid %d: %s", what, wantTxid, d)
					return false
				}
				if len(r.check) > 0 {
					fail("check", "%s: Tx.Check on the surviving state: %s", what, r.check[0])
					return false
				}
			}
		}
		if rwToo && valid >= 1 && want != nil {
			// read-write on a scratch copy: must open, show the same state and accept a commit
			cp := path + ".rw"
			_ = os.WriteFile(cp, cur, 0600)
			r := work.NewExec(cp, e.Cfg)
			r.Cur, r.LastTxid = want, wantTxid
			func() {
				defer func() {
					if p := recover(); p != nil {
						fail("open-panics", "%s: read-write Open/commit panicked: %v", what, p)
					}
				}()
				if err := r.Open(work.OpenOpts{GivePageSize: salt%2 == 0, Freelist: []string{"array", "hashmap"}[salt%2]}); err != nil {
					fail("open-failed", "%s: read-write Open failed: %v", what, err)
					return
				}
				r.CheckContent("read-write open of the damaged file")
				r.RunTx(&work.Txn{Mode: "update", End: "commit", Ops: []work.Op{{Kind: "mkbi", Key: "after-damage"}, {Kind: "nextseq", Path: []string{"after-damage"}}}})
				r.FileChecks = true
				// (in a hot backup the meta slots do not follow the txid parity: the first commit may go to the
				// slot of the intact meta and leave the damaged one as it is)
				r.AllowInvalidMeta = c.Params["backup_source"] == 1
				if !r.Failed() {
					r.CheckFile("commit after damage")
				}
				for _, v := range r.Viol {
					fail("rw-"+v.Class, "%s: %s", what, v.Msg)
				}
				_ = r.Close()
			}()
			os.Remove(cp)
			out.probe("rw-open-after-damage", 1)
			if len(out.Viol) > 0 {
				return false
			}
		}
		return true
	}
	patch := func(off int64, b []byte) { _, _ = f.WriteAt(b, off) }
	cur := append([]byte(nil), img...)
	// (1) every byte of each meta record × every replacement value
	exhaustive := c.Tier == "thorough" || c.Params["exhaustive"] == 1
	vt := sim.NewTape(c.Seed, c.Run, "values")
	for mi := 0; mi < 2; mi++ {
		base := int64(mi*ps + dec.PageHeaderSize)
		for off := int64(0); off < dec.MetaSize; off++ {
			if PastDeadline() {
				out.probe("stopped-at-deadline", 1)
				return
			}
			orig := img[base+off]
			var pick [256]bool
			if !exhaustive {
				// quick tier: boundary values plus tape-chosen ones per byte
				for _, v := range []byte{orig ^ 1, orig ^ 0x80, 0x00, 0xFF, orig + 1, orig - 1} {
					pick[v] = true
				}
				for k := 0; k < 6; k++ {
					pick[vt.Intn(256)] = true
				}
			}
			for v := 0; v < 256; v++ {
				if byte(v) == orig || (!exhaustive && !pick[v]) {
					continue
				}
				cur[base+off] = byte(v)
				patch(base+off, []byte{byte(v)})
				rw := (int(off)*256+v)%509 == 0
				if !evaluate(cur, fmt.Sprintf("meta %d byte %d set to %#02x (was %#02x)", mi, off, v, orig), rw, uint64(mi)<<20|uint64(off)<<8|uint64(v)) {
					return
				}
			}
			cur[base+off] = orig
			patch(base+off, []byte{orig})
		}
	}
	if exhaustive {
		out.probe("meta-bytes-x-values-exhaustive(files)", 1)
	} else {
		out.probe("meta-bytes-exhaustive-values-sampled(files)", 1)
	}
	// (2) partial overwrite by a would-be newer meta (every prefix length)
	for mi := 0; mi < 2; mi++ {
		base := mi*ps + dec.PageHeaderSize
		m := dec.ParseMeta(img[base:])
		nm := m
		nm.Txid += 2
		nm.Root += 3
		nm.Pgid += 5
		if nm.Freelist != dec.NoFreelist {
			nm.Freelist += 1
		}
		var rec [dec.MetaSize]byte
		dec.EncodeMeta(rec[:], nm)
		for l := 1; l < dec.MetaSize; l++ {
			copy(cur[base:], img[base:base+dec.MetaSize])
			copy(cur[base:], rec[:l])
			if string(cur[base:base+dec.MetaSize]) == string(rec[:]) {
				// the bytes not yet overwritten happen to equal the new record's (1 in 256 for the last checksum
				// byte): this is the complete newer meta record, not a partial overwrite - there is no damaged page
				out.probe("partial-overwrite-equals-complete-record(skipped)", 1)
				continue
			}
			patch(int64(base), cur[base:base+dec.MetaSize])
			if !evaluate(cur, fmt.Sprintf("meta %d: first %d bytes overwritten by a newer meta record", mi, l), l%8 == 0, 1<<40|uint64(mi)<<20|uint64(l)) {
				return
			}
			out.fault("partial-newer-meta", 1)
		}
		copy(cur[base:], img[base:base+dec.MetaSize])
		patch(int64(base), cur[base:base+dec.MetaSize])
	}
	// (3) both damaged
	t := sim.NewTape(c.Seed, c.Run, "corrupt")
	for k := 0; k < 64; k++ {
		o0, o1 := int64(t.Intn(dec.MetaSize)), int64(t.Intn(dec.MetaSize))
		b0, b1 := int64(dec.PageHeaderSize)+o0, int64(ps+dec.PageHeaderSize)+o1
		cur[b0] ^= byte(1 + t.Intn(255))
		cur[b1] ^= byte(1 + t.Intn(255))
		patch(b0, cur[b0:b0+1])
		patch(b1, cur[b1:b1+1])
		okk := evaluate(cur, fmt.Sprintf("both metas damaged (byte %d and byte %d)", o0, o1), false, 2<<40|uint64(k))
		cur[b0], cur[b1] = img[b0], img[b1]
		patch(b0, cur[b0:b0+1])
		patch(b1, cur[b1:b1+1])
		if !okk {
			return
		}
	}
	// (4) too small / not a database
	for k, n := range []int{1, 15, 16, 79, 80, ps - 1, ps, ps + 15, ps + 80, 2*ps - 1} {
		if n >= len(img) {
			continue
		}
		_ = os.WriteFile(path+".small", img[:n], 0600)
		out.Evals++
		r := tryOpen(path+".small", e, &bolt.Options{ReadOnly: true, PageSize: ps * (k % 2)}, false)
		out.fault("truncated-file", 1)
		if r.panic != nil {
			fail("open-panics", "file truncated to %d bytes: Open panicked: %v", n, r.panic)
		} else if r.err == nil {
			fail("opened-invalid", "file truncated to %d bytes (less than two pages): Open succeeded", n)
		}
		os.Remove(path + ".small")
	}
	junk := make([]byte, 4*ps)
	for i := range junk {
		junk[i] = byte(t.Intn(256))
	}
	_ = os.WriteFile(path+".junk", junk, 0600)
	out.Evals++
	if r := tryOpen(path+".junk", e, &bolt.Options{ReadOnly: true}, false); r.panic != nil || r.err == nil {
		fail("opened-invalid", "random non-database bytes: Open returned err=%v panic=%v", r.err, r.panic)
	}
	out.fault("not-a-database", 1)
	os.Remove(path + ".junk")
	for h := range distinct {
		out.Distinct = append(out.Distinct, mixHash(h, c.Run))
	}
	out.Sample = map[string]any{"run": c.Run, "cfg": c.Prog.Cfg, "file_bytes": len(img), "damaged_images": out.Evals, "history": c.Prog.Describe(3)}
}

// buildTwins writes a small database with two identically filled buckets and a non-empty persisted freelist.
func buildTwins(c *Case, dir string, out *Outcome) ([]byte, bool) {
	path := filepath.Join(dir, "twins")
	os.Remove(path)
	defer os.Remove(path)
	t := sim.NewTape(c.Seed, c.Run, "twins")
	ps := c.Prog.Cfg.PageSize
	if ps > 8192 {
		ps = 4096
	}
	db, err := bolt.Open(path, 0600, &bolt.Options{PageSize: ps, NoSync: true})
	if err != nil {
		out.HarnessErr = err.Error()
		return nil, false
	}
	n := 150 + t.Intn(300)
	vl := 10 + t.Intn(60)
	steps := []func(tx *bolt.Tx) error{
		func(tx *bolt.Tx) error { // something to free later
			b, err := tx.CreateBucket([]byte("junk"))
			if err != nil {
				return err
			}
			for i := 0; i < 60; i++ {
				if err := b.Put([]byte(fmt.Sprintf("j%04d", i)), make([]byte, ps/3)); err != nil {
					return err
				}
			}
			return nil
		},
		func(tx *bolt.Tx) error { return tx.DeleteBucket([]byte("junk")) },
		func(tx *bolt.Tx) error {
			for _, name := range []string{"twin-a", "twin-b"} {
				b, err := tx.CreateBucket([]byte(name))
				if err != nil {
					return err
				}
				for i := 0; i < n; i++ {
					if err := b.Put([]byte(fmt.Sprintf("key-%05d", i)), work.MkVal(vl, uint32(i))); err != nil {
						return err
					}
				}
			}
			return nil
		},
	}
	for _, f := range steps {
		if err := db.Update(f); err != nil {
			_ = db.Close()
			out.HarnessErr = err.Error()
			return nil, false
		}
	}
	if err := db.Close(); err != nil {
		out.HarnessErr = err.Error()
		return nil, false
	}
	img, err := os.ReadFile(path)
	if err != nil {
		out.HarnessErr = err.Error()
		return nil, false
	}
	return img, true
}

// ---------------------------------------------------------------------------
// C19

var le = binary.LittleEndian

type corruption struct {
	class string
	desc  string
	apply func(b []byte)
}

// structuralCorruptions lists single structural edits of the listed classes
// applicable to the image.
func structuralCorruptions(img []byte, ps int, res *dec.Result, t *sim.Tape) []corruption {
	var out []corruption
	hwm := res.Meta.Pgid
	pageOff := func(id uint64) int { return int(id) * ps }
	var reach []uint64
	for id := range res.Heads {
		reach = append(reach, id)
	}
	sort.Slice(reach, func(i, j int) bool { return reach[i] < reach[j] })
	if res.HasFreelist && len(res.FreelistPages) == 1 {
		fo := pageOff(res.Meta.Freelist)
		cnt := int(le.Uint16(img[fo+10:]))
		if cnt < 0xFFFF {
			idsOff := fo + dec.PageHeaderSize
			room := (ps-dec.PageHeaderSize)/8 - cnt
			// unreachable yet not free: drop an id from the freelist
			for i := 0; i < cnt && i < 6; i++ {
				i := i
				out = append(out, corruption{"unreachable-unfreed", fmt.Sprintf("free id #%d removed from the freelist page", i), func(b []byte) {
					copy(b[idsOff+8*i:], b[idsOff+8*(i+1):idsOff+8*cnt])
					le.PutUint16(b[fo+10:], uint16(cnt-1))
				}})
			}
			// freed twice: duplicate an id
			for i := 0; i < cnt && i < 4 && room > 0; i++ {
				i := i
				out = append(out, corruption{"double-free", fmt.Sprintf("free id #%d listed twice", i), func(b []byte) {
					copy(b[idsOff+8*(i+1):], b[idsOff+8*i:idsOff+8*cnt])
					le.PutUint16(b[fo+10:], uint16(cnt+1))
				}})
			}
			// reachable yet free: add a reachable page to the freelist (kept sorted)
			for k := 0; k < len(reach) && k < 6 && room > 0; k++ {
				id := reach[(k*7)%len(reach)]
				out = append(out, corruption{"reachable-freed", fmt.Sprintf("reachable page %d added to the freelist", id), func(b []byte) {
					ids := make([]uint64, 0, cnt+1)
					for i := 0; i < cnt; i++ {
						ids = append(ids, le.Uint64(b[idsOff+8*i:]))
					}
					ids = append(ids, id)
					sort.Slice(ids, func(i, j int) bool { return ids[i] < ids[j] })
					for i, v := range ids {
						le.PutUint64(b[idsOff+8*i:], v)
					}
					le.PutUint16(b[fo+10:], uint16(cnt+1))
				}})
			}
		}
	}
	// invalid type in the header of a meta page (either slot; the record and its checksum stay intact)
	for id := uint64(0); id < 2; id++ {
		po := pageOff(id)
		bad := []uint16{0x40, 0, dec.FlagMeta | 0x10, dec.FlagMeta | 0x01, dec.FlagMeta | 0x8000, dec.FlagMeta | dec.FlagLeaf}[t.Intn(6)]
		out = append(out, corruption{"bad-type", fmt.Sprintf("meta page %d header flags set to %#x", id, bad), func(b []byte) { le.PutUint16(b[po+8:], bad) }})
	}
	for _, id := range reach {
		po := pageOff(id)
		flags := res.Heads[id]
		cnt := int(le.Uint16(img[po+10:]))
		// invalid type
		if len(out) < 200 {
			out = append(out, corruption{"bad-type", fmt.Sprintf("page %d flags set to 0x40", id), func(b []byte) { le.PutUint16(b[po+8:], 0x40) }})
			// an invalid type that still contains the bit of the type the page is used as
			extra := []uint16{0x10, 0x04, 0x8000, 0x01, 0x02}[t.Intn(5)]
			if extra&flags == 0 {
				out = append(out, corruption{"bad-type", fmt.Sprintf("page %d flags %#x with extra bit %#x", id, flags, extra), func(b []byte) { le.PutUint16(b[po+8:], flags|extra) }})
			}
		}
		if flags == dec.FlagBranch && cnt >= 2 {
			// referenced twice: two branch elements point at one child
			i := t.Intn(cnt - 1)
			out = append(out, corruption{"multi-ref", fmt.Sprintf("branch page %d: element %d redirected to element %d's child", id, i+1, i), func(b []byte) {
				src := po + dec.PageHeaderSize + i*dec.BranchElemSize
				dst := po + dec.PageHeaderSize + (i+1)*dec.BranchElemSize
				copy(b[dst+8:dst+16], b[src+8:src+16])
			}})
			// keys out of order in a branch: swap two adjacent separators
			out = append(out, corruption{"key-order", fmt.Sprintf("branch page %d: separators %d and %d swapped", id, i, i+1), func(b []byte) {
				swapBranch(b, po, i)
			}})
		}
		if flags == dec.FlagBranch && cnt >= 2 {
			// a child's first key smaller than its parent's separator. Three forms:
			// far below (first byte zeroed) for the leftmost child and for another
			// child, and just below (last byte decremented) while staying above
			// the left sibling's last key.
			firstKeyOf := func(child uint64) (pos, ks int, ok bool) {
				co := pageOff(child)
				if co+dec.PageHeaderSize+dec.LeafElemSize > len(img) || le.Uint16(img[co+8:]) != dec.FlagLeaf || le.Uint16(img[co+10:]) < 1 {
					return 0, 0, false
				}
				pos = co + dec.PageHeaderSize + int(le.Uint32(img[co+dec.PageHeaderSize+4:]))
				ks = int(le.Uint32(img[co+dec.PageHeaderSize+8:]))
				return pos, ks, ks > 0 && pos+ks <= len(img)
			}
			lastKeyOf := func(child uint64) []byte {
				co := pageOff(child)
				if co+dec.PageHeaderSize > len(img) || le.Uint16(img[co+8:]) != dec.FlagLeaf {
					return nil
				}
				n := int(le.Uint16(img[co+10:]))
				if n < 1 {
					return nil
				}
				eo := co + dec.PageHeaderSize + (n-1)*dec.LeafElemSize
				pos, ks := eo+int(le.Uint32(img[eo+4:])), int(le.Uint32(img[eo+8:]))
				if pos+ks > len(img) {
					return nil
				}
				return img[pos : pos+ks]
			}
			childAt := func(i int) uint64 { return le.Uint64(img[po+dec.PageHeaderSize+i*dec.BranchElemSize+8:]) }
			for _, i := range []int{0, 1 + t.Intn(cnt-1)} {
				child := childAt(i)
				if pos, _, ok := firstKeyOf(child); ok && img[pos] != 0 {
					p := pos
					out = append(out, corruption{"key-order", fmt.Sprintf("leaf page %d (child %d of branch %d): first key made far smaller than the parent's separator", child, i, id), func(b []byte) { b[p] = 0 }})
				}
			}
			for i := 1; i < cnt && i < 6; i++ {
				child := childAt(i)
				pos, ks, ok := firstKeyOf(child)
				left := lastKeyOf(childAt(i - 1))
				if !ok || left == nil || img[pos+ks-1] == 0 {
					continue
				}
				lowered := append([]byte(nil), img[pos:pos+ks]...)
				lowered[ks-1]--
				if bytes.Compare(lowered, left) <= 0 {
					continue // would collide with the left sibling: not the "just below the separator" form
				}
				p := pos + ks - 1
				out = append(out, corruption{"key-order", fmt.Sprintf("leaf page %d (child %d of branch %d): first key lowered just below the parent's separator (still above the left sibling's last key)", child, i, id), func(b []byte) { b[p]-- }})
			}
		}
		if flags == dec.FlagLeaf && cnt >= 2 {
			i := t.Intn(cnt - 1)
			out = append(out, corruption{"key-order", fmt.Sprintf("leaf page %d: elements %d and %d swapped", id, i, i+1), func(b []byte) {
				swapLeaf(b, po, i)
			}})
		}
	}
	// referenced twice through a bucket header: a bucket's root pointer (in the leaf element that holds the bucket)
	// redirected to the root page of another bucket - for an inline bucket (root 0) nothing else changes
	type bref struct {
		rootOff int // file offset of the header's root field
		root    uint64
		name    string
	}
	var brefs []bref
	for _, id := range reach {
		po := pageOff(id)
		if le.Uint16(img[po+8:]) != dec.FlagLeaf {
			continue
		}
		cnt := int(le.Uint16(img[po+10:]))
		for i := 0; i < cnt; i++ {
			el := po + dec.PageHeaderSize + i*dec.LeafElemSize
			if el+dec.LeafElemSize > len(img) || le.Uint32(img[el:])&dec.BucketLeafFlag == 0 {
				continue
			}
			pos, ks, vs := int(le.Uint32(img[el+4:])), int(le.Uint32(img[el+8:])), int(le.Uint32(img[el+12:]))
			vo := el + pos + ks
			if vs < dec.BucketHdrSize || vo+vs > len(img) {
				continue
			}
			brefs = append(brefs, bref{vo, le.Uint64(img[vo:]), string(img[el+pos : el+pos+ks])})
		}
	}
	nred := 0
	for ai := 0; ai < len(brefs) && nred < 6; ai++ {
		a := brefs[(ai*5+int(t.Intn(3)))%len(brefs)]
		for bi := range brefs {
			b := brefs[(bi+ai)%len(brefs)]
			if b.root == 0 || b.root == a.root || b.rootOff == a.rootOff {
				continue
			}
			a, b := a, b
			kind := "paged"
			if a.root == 0 {
				kind = "inline"
			}
			out = append(out, corruption{"multi-ref", fmt.Sprintf("header of %s bucket %q: root pointer redirected to page %d, the root of bucket %q", kind, a.name, b.root, b.name), func(x []byte) {
				le.PutUint64(x[a.rootOff:], b.root)
			}})
			nred++
			break
		}
	}
	// a leaf shared between the trees of two buckets, with the page that lost its reference put on the freelist:
	// the double reference is then the only defect (no orphan, and - the two leaves being byte-identical apart
	// from their ids - no key-order violation either)
	if res.HasFreelist && len(res.FreelistPages) == 1 {
		fo := pageOff(res.Meta.Freelist)
		cnt := int(le.Uint16(img[fo+10:]))
		room := (ps-dec.PageHeaderSize)/8 - cnt
		shared := 0
		for ai := 0; ai < len(brefs) && shared < 3 && cnt < 0xFFFE && room > 0; ai++ {
			for bi := ai + 1; bi < len(brefs) && shared < 3; bi++ {
				a, b := brefs[ai], brefs[bi]
				if a.root == 0 || b.root == 0 || a.root == b.root {
					continue
				}
				pa, pb := pageOff(a.root), pageOff(b.root)
				if le.Uint16(img[pa+8:]) != dec.FlagBranch || le.Uint16(img[pb+8:]) != dec.FlagBranch {
					continue
				}
				na, nb := int(le.Uint16(img[pa+10:])), int(le.Uint16(img[pb+10:]))
				if na != nb || na < 2 || le.Uint32(img[pa+12:]) != 0 || le.Uint32(img[pb+12:]) != 0 {
					continue
				}
				for i := 1; i < na; i++ {
					ea := pa + dec.PageHeaderSize + i*dec.BranchElemSize
					eb := pb + dec.PageHeaderSize + i*dec.BranchElemSize
					ca, cb := le.Uint64(img[ea+8:]), le.Uint64(img[eb+8:])
					if ca == cb || ca >= hwm || cb >= hwm {
						continue
					}
					la, lb := pageOff(ca), pageOff(cb)
					if le.Uint16(img[la+8:]) != dec.FlagLeaf || le.Uint16(img[lb+8:]) != dec.FlagLeaf || le.Uint32(img[la+12:]) != 0 || le.Uint32(img[lb+12:]) != 0 {
						continue
					}
					if string(img[la+8:la+ps]) != string(img[lb+8:lb+ps]) {
						continue // not twins
					}
					ebC, caC, cbC := eb, ca, cb
					idsOff := fo + dec.PageHeaderSize
					out = append(out, corruption{"multi-ref", fmt.Sprintf("leaf %d of bucket %q also linked from bucket %q (element %d of branch %d) in place of its identical twin %d, which is put on the freelist: the double reference is the only defect", ca, a.name, b.name, i, b.root, cb), func(x []byte) {
						le.PutUint64(x[ebC+8:], caC)
						ids := make([]uint64, 0, cnt+1)
						for k := 0; k < cnt; k++ {
							ids = append(ids, le.Uint64(x[idsOff+8*k:]))
						}
						ids = append(ids, cbC)
						sort.Slice(ids, func(p, q int) bool { return ids[p] < ids[q] })
						for k, id := range ids {
							le.PutUint64(x[idsOff+8*k:], id)
						}
						le.PutUint16(x[fo+10:], uint16(cnt+1))
					}})
					shared++
					break
				}
			}
		}
	}
	_ = hwm
	return out
}

// swapLeaf exchanges leaf elements i and i+1 (headers only; pos is relative
// to the element, so it is adjusted by one header size).
func swapLeaf(b []byte, po, i int) {
	a := po + dec.PageHeaderSize + i*dec.LeafElemSize
	c := a + dec.LeafElemSize
	var ea, ec [dec.LeafElemSize]byte
	copy(ea[:], b[a:])
	copy(ec[:], b[c:])
	le.PutUint32(ec[4:], le.Uint32(ec[4:])+dec.LeafElemSize)
	le.PutUint32(ea[4:], le.Uint32(ea[4:])-dec.LeafElemSize)
	copy(b[a:], ec[:])
	copy(b[c:], ea[:])
}

func swapBranch(b []byte, po, i int) {
	a := po + dec.PageHeaderSize + i*dec.BranchElemSize
	c := a + dec.BranchElemSize
	var ea, ec [dec.BranchElemSize]byte
	copy(ea[:], b[a:])
	copy(ec[:], b[c:])
	le.PutUint32(ec[0:], le.Uint32(ec[0:])+dec.BranchElemSize)
	le.PutUint32(ea[0:], le.Uint32(ea[0:])-dec.BranchElemSize)
	copy(b[a:], ec[:])
	copy(b[c:], ea[:])
}

var listedClasses = map[string]bool{"unreachable-unfreed": true, "reachable-freed": true, "multi-ref": true, "double-free": true, "bad-type": true, "key-order": true}

func (cs corruptsim) runStructural(c *Case, dir string, img []byte, e *work.Exec, out *Outcome) {
	path := filepath.Join(dir, "cor")
	defer os.Remove(path)
	ps := c.Prog.Cfg.PageSize
	fail := func(class, f string, a ...any) {
		if len(out.Viol) < 5 {
			out.Viol = append(out.Viol, &work.Violation{Prop: "C19", Class: class, Msg: fmt.Sprintf(f, a...)})
		}
	}
	judge := func(cur []byte, what string, expectProblem bool, salt uint64) bool {
		out.Evals++
		Tick()
		Journal(c, what)
		if err := os.WriteFile(path, cur, 0600); err != nil {
			out.HarnessErr = err.Error()
			return false
		}
		// library
		var errs []string
		var pan any
		func() {
			defer func() {
				if p := recover(); p != nil {
					pan = p
				}
			}()
			db, err := bolt.Open(path, 0600, &bolt.Options{ReadOnly: true})
			if err != nil {
				errs = append(errs, "open: "+err.Error())
				return
			}
			defer db.Close()
			_ = db.View(func(tx *bolt.Tx) error {
				for cerr := range tx.Check() {
					errs = append(errs, cerr.Error())
				}
				return nil
			})
		}()
		if pan != nil {
			errs = append(errs, fmt.Sprintf("panic: %v", pan))
			out.probe("library-panicked-on-corruption", 1)
		}
		// command-line tool
		_, cliErr := runCLI("check", path)
		if expectProblem {
			if len(errs) == 0 {
				fail("corruption-not-reported", "%s: Tx.Check reports nothing", what)
				return false
			}
			if cliErr == nil {
				fail("cli-exit-status", "%s: `bbolt check` exits 0 (library reported: %s)", what, errs[0])
				return false
			}
			out.fault("structural-corruption-detected", 1)
		} else {
			if len(errs) > 0 {
				fail("false-report", "%s: Tx.Check reports %q on a consistent file", what, errs[0])
				return false
			}
			if cliErr != nil {
				fail("cli-exit-status", "%s: `bbolt check` fails on a consistent file: %v", what, cliErr)
				return false
			}
		}
		out.Distinct = append(out.Distinct, mixHash(salt, c.Run, uint64(len(errs))))
		return true
	}
	// negative side: the file as committed reports nothing
	if !judge(img, "consistent file after its last commit", false, 0) {
		return
	}
	im, err := dec.Load(img)
	if err != nil {
		out.HarnessErr = err.Error()
		return
	}
	wi, _ := im.Winner()
	res := im.Decode(wi)
	if !res.Clean() {
		return // reported by C07
	}
	t := sim.NewTape(c.Seed, c.Run, "corrupt")
	cors := structuralCorruptions(img, ps, res, t)
	limit := 60
	if c.Tier == "thorough" {
		limit = 400
	}
	for i, co := range cors {
		if PastDeadline() {
			break
		}
		Tick()
		if i >= limit {
			break
		}
		cur := append([]byte(nil), img...)
		co.apply(cur)
		// the referee: which listed classes are really present now?
		im2, err := dec.Load(cur)
		if err != nil {
			continue
		}
		wi2, ok := im2.Winner()
		if !ok {
			continue
		}
		r2 := im2.Decode(wi2)
		listed, other := false, false
		for _, p := range r2.Problems {
			if listedClasses[p.Class] {
				listed = true
			} else {
				other = true
			}
		}
		if r2.Fatal != "" {
			other = true
		}
		switch {
		case listed:
			out.probe("corruption:"+co.class, 1)
			if !judge(cur, fmt.Sprintf("%s [%s; decoder: %s]", co.desc, co.class, r2.ProblemString()), true, uint64(i+1)) {
				return
			}
		case !other:
			// the edit cancelled out: the file is consistent, nothing may be reported
			out.probe("corruption-cancelled-out", 1)
			if !judge(cur, co.desc+" (decoder finds the file consistent)", false, uint64(i+1)<<20) {
				return
			}
		default:
			out.probe("corruption-outside-listed-classes", 1)
		}
	}
	out.Sample = map[string]any{"run": c.Run, "cfg": c.Prog.Cfg, "file_bytes": len(img), "corruptions": len(cors), "history": c.Prog.Describe(3)}
}

func (cs corruptsim) Shrinks(c *Case) []*Case {
	var out []*Case
	for _, d := range shrinkProgram(c) {
		// keep the final commit
		if n := len(d.Prog.Steps); n > 0 && d.Prog.Steps[n-1].Kind == "tx" && d.Prog.Steps[n-1].Tx.End == "commit" && (d.Prog.Steps[n-1].Tx.Mode == "update" || d.Prog.Steps[n-1].Tx.Mode == "rw") {
			out = append(out, d)
		}
	}
	return out
}

func init() {
	cs := corruptsim{}
	register(&Info{Prop: "C11", Engine: cs, Level: "fault_enumeration", QuickS: 60, ThoroughS: 900,
		RealStub: "real: bbolt Open/View/Check/commit on every damaged file (real files on tmpfs); injected: stored-byte faults applied to the file at rest; oracle: the independent decoder's verdict on the damaged image + the model version table",
		Rule:     "per seeded history (ending in a successful commit; page sizes equal to and different from the OS page size; freelist persisted or not): every byte offset of the 64-byte meta record of each meta page x every replacement value (exhaustive: 2 x 64 x 255 damaged files), every prefix length of a correctly checksummed would-be newer meta record written over each meta, 64 both-damaged pairs, truncations below two pages, random bytes. Each damaged file is opened read-only with and without Options.PageSize (and read-write on a copy for a sample, followed by a commit): expected result derived from the decoder (one valid meta -> opens at exactly that meta's version, correct page size, Tx.Check clean; none -> error, never a panic). evaluations = damaged files opened; distinct_nontrivial = distinct (damage position/value class, surviving-meta outcome) per file",
		Assume:   []string{"the 16-byte page header in front of the meta record is not part of the property and is not damaged", "zero-length files are new databases by definition and are not treated as damage"}})
	register(&Info{Prop: "C19", Engine: cs, Level: "fault_enumeration", QuickS: 60, ThoroughS: 900,
		RealStub: "real: bbolt Open + Tx.Check, and `bbolt check` from cmd/bbolt/command run in-process; injected: single structural corruptions written into a copy of a consistent file; referee: the independent decoder classifies the mutated image",
		Rule:     "per seeded history (in a quarter of the runs the consistent file is the history's content laid out by the independent encoder dec/enc.go with layouts the current writer never produces - sparse pages, scattered ids, gaps, paged small buckets): the consistent file must report nothing (library and CLI exit 0); then a sweep of single structural corruptions over eligible pages/elements - free id removed (unreachable-unfreed), reachable page added to the freelist, free id duplicated, branch element redirected to a sibling's child (referenced twice), invalid page type, adjacent leaf elements / branch separators swapped (key order), a bucket header redirected to another bucket's root, and - on twin-bucket sources built for the purpose (one run in 8) - a leaf shared between the trees of two buckets with its orphaned twin put on the freelist, so that the double reference is the only defect. The decoder decides which listed classes are really present in the mutated image: present -> Tx.Check must yield >= 1 error (recovered panics count) and `bbolt check` must fail; edit cancelled out -> nothing may be reported. distinct_nontrivial = distinct (file, corruption) pairs evaluated",
		Assume:   []string{"only files with a single-page persisted freelist get freelist edits", "corruptions that the decoder classifies only outside the listed classes (bounds, ids) carry no expectation"}})
}
