package props

import (
	"encoding/json"
	"errors"
	"fmt"
	"hash/fnv"
	"os"
	"path/filepath"

	bolt "go.etcd.io/bbolt"
	berrors "go.etcd.io/bbolt/errors"
	"go.etcd.io/bbolt/xverif/dec"
	"go.etcd.io/bbolt/xverif/model"
	"go.etcd.io/bbolt/xverif/sim"
	"go.etcd.io/bbolt/xverif/work"
)

// crashsim executes a seeded history once against the real file while the
// shadow disk records every I/O call, then constructs crash states (crash
// point × persisted subset of the not-yet-synced units) and checks each one
// with the independent decoder and with real recovery (C01). While the
// history runs, every pwrite is checked against the page sets of all visible
// versions (C06).
type crashsim struct{}

func (crashsim) Name() string { return "crashsim" }

type crashExtra struct {
	// explicit crash states to evaluate (replay); empty = enumerate
	States []sim.CrashSpec `json:"states,omitempty"`
	// recovery options per state index (replay) – stored with the state
	Recover []work.OpenOpts `json:"recover,omitempty"`
}

func (cs crashsim) Gen(prop, tier string, ts *sim.Tapes) *Case {
	cfg := work.GenConfig(ts.Get("cfg"))
	cfg.StrictMode = false
	p := work.GenParams{MaxSteps: 10, MaxOps: 25, Reopen: true, ReopenOpts: true, Readers: true, NoErrors: true}
	if tier == "thorough" {
		p.MaxSteps, p.MaxOps = 30, 50
	}
	if prop == "C06" {
		p.MaxSteps *= 2
	}
	p.Guards = ActiveGuards()
	t := ts.Get("swarm")
	switch t.Pick(3, 1, 1, 1, 1) {
	case 1:
		p.BucketHeavy = true
	case 2:
		p.NoBigValues = true
	case 3:
		p.Overwrite = true
	case 4:
		// a free list longer than one page for the whole history
		p.FreelistHeavy = true
		cfg.PageSize = []int{1024, 2048}[t.Pick(3, 1)]
		if cfg.AllocSize != 0 && cfg.AllocSize < cfg.PageSize {
			cfg.AllocSize = cfg.PageSize
		}
	}
	sizeLimited := false
	if t.Chance(1, 5) {
		// a size limit low enough to be reached: some commits are refused with the size-limit error before they
		// write anything, the history goes on at the limit (deletes and overwrites still succeed)
		cfg.MaxSize = cfg.PageSize * (5 + t.Intn(28))
		sizeLimited = true
	}
	prog := work.GenProgram(ts, cfg, p)
	c := &Case{Prop: prop, Engine: cs.Name(), Tier: tier, Seed: ts.Seed, Run: ts.Run, Prog: prog, Tapes: map[string][]uint64{}, Params: map[string]int{}}
	if sizeLimited {
		c.Params["size_limit"] = 1
	}
	budget := 300
	if tier == "thorough" {
		budget = 3000
	}
	if prop == "C06" {
		budget = 0
	}
	c.Params["crash_budget"] = budget
	if t.Chance(1, 6) {
		// a commit in the middle of the history fails by an I/O error that leaves the committed state untouched
		// (a data write, the data sync, or a torn meta write); the history goes on. What the failure leaves behind
		// is judged by the crash oracle (C01) / the page-set monitor (C06) of the commits that follow.
		c.Params["mid_fault"] = 1 + t.Pick(3, 2, 2) // 1 write eio, 2 data-sync eio, 3 meta write torn before its checksum
		c.Params["mid_fault_k"] = t.Intn(4)
	} else if prop == "C01" && t.Chance(1, 5) {
		// the history ends with a commit one of whose syncs fails (nothing becomes durable by a failed sync):
		// a commit that is nevertheless acknowledged must survive every crash state that follows
		c.Params["sync_fault"] = 1 + t.Pick(1, 2) // 1: the data sync fails, 2: the sync after the meta write
	}
	return c
}

type window struct {
	from, to int // log index range [from,to) in which txid is in flight
	txid     int
}

type stopHistory struct{}

func (cs crashsim) Run(c *Case, dir string) (out *Outcome) {
	out = &Outcome{}
	var viols *[]*work.Violation
	defer func() {
		if r := recover(); r != nil {
			if _, ok := r.(stopHistory); !ok {
				panic(r)
			}
			sim.Uninstall()
			out.Evals = 1
			if viols != nil {
				out.Viol = append(out.Viol, (*viols)...)
			}
		}
	}()
	path := filepath.Join(dir, "db")
	rpath := filepath.Join(dir, "rec")
	os.Remove(path)
	defer os.Remove(path)
	defer os.Remove(rpath)
	if c.Tapes == nil {
		c.Tapes = map[string][]uint64{}
	}
	order := sim.ReplayTape("order", c.Tapes["order"])
	if c.Tapes["order"] == nil {
		order = sim.NewTape(c.Seed, c.Run, "order")
	}
	disk := sim.NewDisk("")
	disk.Record = true
	e := work.NewExec(path, c.Prog.Cfg)
	viols = &e.Viol
	e.FileChecks = true
	ps := c.Prog.Cfg.PageSize

	// C06 monitor: page sets of visible versions
	pageSets := map[int]map[uint64]bool{}
	w := &sim.World{MapOrder: c.Prog.Cfg.MapOrder, Order: order, Disk: disk}
	w.OnWrite = func(db *bolt.DB, off int64, n int) {
		// the page-set monitor belongs to C06; in a C01 run it must not end the
		// history before the crash states are built (the crash oracle decides)
		if db.Path() != path || e.LastDec == nil || c.Prop != "C06" {
			return
		}
		out.probe("writes-monitored", 1)
		first, last := uint64(off)/uint64(ps), uint64(off+int64(n)-1)/uint64(ps)
		check := func(txid int, what string) {
			set := pageSets[txid]
			for pg := first; pg <= last; pg++ {
				if set[pg] {
					e.Viol = append(e.Viol, &work.Violation{Prop: "C06", Class: "overwrite-visible-page",
						Msg: fmt.Sprintf("pwrite off=%d len=%d touches page %d which belongs to %s (txid %d); writer txid %d", off, n, pg, what, txid, e.LastTxid+1)})
					return
				}
			}
		}
		nv := len(e.Viol)
		check(e.LastTxid, "the newest committed version")
		for _, id := range sortedReaderIDs(e) {
			r := e.Readers[id]
			if r.ID != e.LastTxid {
				check(r.ID, "the version of an open read transaction")
				out.probe("writes-checked-against-old-reader", 1)
			}
		}
		if len(e.Viol) > nv {
			// the write has not happened yet: stop here instead of walking a tree
			// that is about to be overwritten
			panic(stopHistory{})
		}
		// meta slot of the newest committed version
		if first <= uint64(e.LastTxid%2) && uint64(e.LastTxid%2) <= last {
			e.Viol = append(e.Viol, &work.Violation{Prop: "C06", Class: "overwrite-newest-meta",
				Msg: fmt.Sprintf("pwrite off=%d len=%d hits meta slot %d holding the newest committed meta (txid %d)", off, n, e.LastTxid%2, e.LastTxid)})
		}
	}
	w.Install()
	defer sim.Uninstall()
	finished := false
	defer func() {
		if finished && e.DB != nil {
			_ = e.Close()
		}
	}()
	if err := e.Open(e.DefaultOpts()); err != nil {
		out.HarnessErr = fmt.Sprintf("initial open: %v", err)
		return out
	}
	base, err := os.ReadFile(path)
	if err != nil {
		out.HarnessErr = err.Error()
		return out
	}
	disk.Base = base
	disk.Log = nil
	disk.Path = path
	startTxid := e.LastTxid
	remember := func() {
		if e.LastDec != nil {
			pageSets[int(e.LastDec.Meta.Txid)] = e.LastDec.UsedSet()
		}
	}
	e.CheckFile("open")
	remember()

	var wins []window
	beginAt := -1
	e.OnBegin = func(txid int) { beginAt = disk.Marker("begin", txid) }
	e.OnCommitRV = func(txid int, err error) {
		i := disk.Marker("commit-returned", txid)
		if err != nil {
			disk.Log[i].Err = err.Error()
		}
		if beginAt >= 0 {
			to := i
			if err != nil {
				// a commit that reported failure may still surface after a later crash (its meta write stays among
				// the unsynced units) until another commit supersedes it
				to = 1 << 30
			}
			wins = append(wins, window{beginAt, to, txid})
		}
		beginAt = -1
	}
	// mid-history fault variant
	midStep := -1
	if c.Params["mid_fault"] > 0 {
		if ws := writeSteps(c.Prog); len(ws) > 1 {
			midStep = ws[int(c.Run)%(len(ws)-1)] // never the last one: something must follow
		}
	}
	// sync-fault variant: the last committing step gets a failing fdatasync and ends the history
	faultStep := -1
	if c.Params["sync_fault"] > 0 {
		if ws := writeSteps(c.Prog); len(ws) > 0 {
			faultStep = ws[len(ws)-1]
		}
	}
	// acked[i] = highest txid whose commit had returned before log index i
	type ack struct{ at, txid int }
	acks := []ack{{0, startTxid}}
	for i := range c.Prog.Steps {
		Tick()
		st := &c.Prog.Steps[i]
		if i == midStep {
			disk.PageSize = ps
			switch c.Params["mid_fault"] {
			case 1:
				disk.Plan = &sim.FaultPlan{K: c.Params["mid_fault_k"], Kind: "eio", Only: "write"}
			case 2:
				disk.Plan = &sim.FaultPlan{K: 0, Kind: "eio", Only: "fdatasync"}
			default:
				disk.Plan = &sim.FaultPlan{Kind: "short72", Only: "metawrite"}
			}
			mark := e.OnBegin
			e.OnBegin = func(txid int) { mark(txid); disk.Arm(true) }
			e.TolerateErr = true
			fc := e.FileChecks
			e.FileChecks = false
			before := e.LastTxid
			e.RunTx(st.Tx)
			disk.Arm(false)
			disk.Plan = nil
			e.OnBegin = mark
			e.TolerateErr = false
			if disk.Fired != "" {
				out.fault("commit-failure-mid-history:"+disk.FiredOp, 1)
				// from here on the crash oracle / the monitor judge what the failed commit left behind
				// (the in-run accounting checks belong to C07/C08)
				e.AllowInvalidMeta = true
				if e.LastErr == nil {
					out.probe("mid-history-fault-did-not-fail-the-commit", 1)
				}
				if c.Prop == "C06" {
					// the monitor needs the page sets of every later version
					e.FileChecks = fc
					if fc {
						e.CheckFile("failed commit (" + disk.FiredOp + ")")
					}
				}
			} else {
				e.FileChecks = fc
				if e.LastTxid != before {
					acks = append(acks, ack{len(disk.Log), e.LastTxid})
				}
				if fc {
					e.CheckFile("commit")
				}
			}
			disk.Fired = ""
			remember()
			if e.Failed() {
				break
			}
			continue
		}
		if i == faultStep {
			disk.PageSize = ps
			disk.Plan = &sim.FaultPlan{K: c.Params["sync_fault"] - 1, Kind: "eio", Only: "fdatasync"}
			mark := e.OnBegin
			e.OnBegin = func(txid int) { mark(txid); disk.Arm(true) }
			e.TolerateErr = true
			e.FileChecks = false
			var would *model.Bucket
			before := e.LastTxid
			e.RunTxCapture(st.Tx, &would)
			disk.Arm(false)
			e.OnBegin = mark
			e.TolerateErr = false
			if disk.Fired != "" {
				out.fault("sync-failure-before-crash:"+[]string{"data-sync", "meta-sync"}[c.Params["sync_fault"]-1], 1)
				if e.LastErr == nil && e.LastTxid != before {
					out.probe("commit-acknowledged-despite-failed-sync", 1)
				}
				if e.LastErr != nil && would != nil {
					e.Versions[before+1] = would // what recovery may legitimately find if the meta write survives
				}
			}
			if e.LastTxid != before {
				acks = append(acks, ack{len(disk.Log), e.LastTxid})
			}
			break // the history ends here
		}
		if st.Kind == "reopen" {
			prev := e.LastTxid
			from := disk.Marker("reopen-call", prev)
			e.RunStep(i, st)
			to := disk.Marker("reopen-returned", e.LastTxid)
			if e.LastTxid != prev {
				wins = append(wins, window{from, to, e.LastTxid})
				out.probe("open-flushed-freelist", 1)
			}
			acks = append(acks, ack{to, e.LastTxid})
		} else {
			before := e.LastTxid
			e.TolerateErr = c.Params["size_limit"] > 0 && st.Kind == "tx"
			e.RunStep(i, st)
			e.TolerateErr = false
			if e.LastErr != nil && st.Kind == "tx" {
				out.fault("commit-refused-at-size-limit", 1)
				if !errors.Is(e.LastErr, berrors.ErrMaxSizeReached) {
					e.Viol = append(e.Viol, &work.Violation{Prop: "C18", Class: "wrong-error", Msg: fmt.Sprintf("a commit under MaxSize %d failed with %v", c.Prog.Cfg.MaxSize, e.LastErr)})
				}
			}
			if e.LastTxid != before {
				acks = append(acks, ack{len(disk.Log), e.LastTxid})
			}
		}
		remember()
		if e.Failed() {
			break
		}
	}
	if !e.Failed() {
		if err := e.Close(); err != nil {
			e.Viol = append(e.Viol, &work.Violation{Prop: "C04", Class: "close-error", Msg: err.Error()})
		}
	}
	finished = true
	sim.Uninstall()
	out.Viol = append(out.Viol, e.Viol...)
	out.merge(e.Probes)
	for k, v := range disk.Counts {
		out.probe("io-"+k, v)
	}
	c.Tapes["order"] = append([]uint64(nil), order.Rec...)
	out.Evals = 1
	if e.Failed() {
		return out
	}
	// every byte in the file must be explained by a logged write
	if real, err := os.ReadFile(path); err == nil {
		fin := disk.Final()
		if len(fin) < len(real) {
			fin = append(fin, make([]byte, len(real)-len(fin))...)
		}
		if string(fin[:len(real)]) != string(real) {
			out.HarnessErr = "HARNESS-UNMODELLED-IO: the data file differs from the shadow disk's view"
			return out
		}
	}
	if c.Prop == "C06" || c.Params["crash_budget"] == 0 {
		if e.Probes["commit"] > 0 {
			out.Distinct = append(out.Distinct, e.Cur.Hash()^uint64(len(disk.Log))<<40)
		}
		return out
	}

	// ---- crash states
	var extra crashExtra
	if len(c.Extra) > 0 {
		_ = json.Unmarshal(c.Extra, &extra)
	}
	states := extra.States
	recov := extra.Recover
	if len(states) == 0 {
		states, recov = enumerateCrashStates(disk, c, sim.NewTape(c.Seed, c.Run, "crash"))
	}
	ackedBefore := func(p int) int {
		a := startTxid
		for _, x := range acks {
			if x.at <= p {
				a = x.txid
			}
		}
		// commit-returned markers are log entries: a commit is acknowledged
		// for every crash point after its marker
		for i := 0; i < p && i < len(disk.Log); i++ {
			if ev := &disk.Log[i]; ev.Kind == "marker" && ev.Marker == "commit-returned" && ev.Err == "" && ev.Txid > a {
				a = ev.Txid
			}
		}
		return a
	}
	out.Evals = 0
	var firstBad *sim.CrashSpec
	var firstBadOpts work.OpenOpts
	for si, spec := range states {
		if PastDeadline() {
			out.probe("stopped-at-deadline", 1)
			break
		}
		out.Evals++
		Tick()
		img, nvol, nkept := disk.Image(spec)
		acked := ackedBefore(spec.Point)
		inflight := -1
		for _, wn := range wins {
			if spec.Point > wn.from && spec.Point <= wn.to && wn.txid > acked {
				inflight = wn.txid
			}
		}
		if nvol > 0 {
			h := fnv.New64a()
			h.Write(img)
			out.Distinct = append(out.Distinct, h.Sum64())
			out.fault("crash-with-unsynced-units", 1)
			if nkept > 0 && nkept < nvol {
				out.fault("crash-partial-subset-persisted", 1)
			}
			if spec.InUnits > 0 {
				out.fault("crash-inside-write(torn)", 1)
			}
		} else {
			out.fault("crash-nothing-unsynced", 1)
		}
		ro := work.OpenOpts{GivePageSize: true, Freelist: "array"}
		if si < len(recov) {
			ro = recov[si]
		}
		v := checkCrashState(e, img, spec, acked, inflight, rpath, ro, out)
		if v != nil {
			out.Viol = append(out.Viol, v)
			s := spec
			firstBad, firstBadOpts = &s, ro
			break
		}
	}
	if firstBad != nil {
		// pin the failing state into the case so that replay and shrinking
		// evaluate exactly it
		ex := crashExtra{States: []sim.CrashSpec{*firstBad}, Recover: []work.OpenOpts{firstBadOpts}}
		c.Extra, _ = json.Marshal(ex)
	}
	out.Sample = map[string]any{"run": c.Run, "cfg": c.Prog.Cfg, "io_events": len(disk.Log), "crash_states": len(states), "steps": c.Prog.Describe(4)}
	return out
}

func sortedReaderIDs(e *work.Exec) []int {
	ids := make([]int, 0, len(e.Readers))
	for id := range e.Readers {
		ids = append(ids, id)
	}
	for i := 1; i < len(ids); i++ {
		for j := i; j > 0 && ids[j] < ids[j-1]; j-- {
			ids[j], ids[j-1] = ids[j-1], ids[j]
		}
	}
	return ids
}

// enumerateCrashStates lists crash points (every boundary after an I/O call,
// tape-chosen points inside writes) times persisted subsets.
func enumerateCrashStates(d *sim.Disk, c *Case, t *sim.Tape) ([]sim.CrashSpec, []work.OpenOpts) {
	unit := c.Prog.Cfg.Unit
	if unit == 0 {
		unit = 512
	}
	budget := c.Params["crash_budget"]
	type pt struct{ p, in int }
	var pts []pt
	for i := 0; i <= len(d.Log); i++ {
		if i == 0 {
			continue
		}
		ev := &d.Log[i-1]
		switch ev.Kind {
		case "write", "truncate", "fdatasync", "fsync":
			pts = append(pts, pt{i, 0})
		}
		if i < len(d.Log) && d.Log[i].Kind == "write" {
			n := (len(d.Log[i].Data) + unit - 1) / unit
			if n > 1 {
				k := 1 + t.Intn(2)
				for j := 0; j < k; j++ {
					pts = append(pts, pt{i, 1 + t.Intn(n-1)})
				}
			}
		}
	}
	// the end of the history is a crash point too (the power fails after the last call returned): it matters when
	// the last I/O call is followed only by markers, e.g. a commit acknowledged right after its final sync
	if n := len(d.Log); n > 0 && (len(pts) == 0 || pts[len(pts)-1].p != n) {
		pts = append(pts, pt{n, 0})
	}
	var specs []sim.CrashSpec
	exhaust := 6
	if c.Tier == "thorough" {
		exhaust = 9
	}
	for _, q := range pts {
		_, vol := d.Volatile(q.p, q.in, unit)
		n := len(vol)
		base := sim.CrashSpec{Point: q.p, InUnits: q.in, Unit: unit}
		add := func(mode string, arg int, mask uint64) {
			s := base
			s.Mode, s.Arg, s.Mask = mode, arg, mask
			specs = append(specs, s)
		}
		switch {
		case n == 0:
			add("none", 0, 0)
		case n <= exhaust:
			for m := uint64(0); m < 1<<uint(n); m++ {
				add("mask", 0, m)
			}
		default:
			add("none", 0, 0)
			add("all", 0, 0)
			add("lastwrite", 0, 0)
			for j := 0; j < 3; j++ {
				add("drop1", t.Intn(n), 0)
				add("only1", t.Intn(n), 0)
				add("prefix", 1+t.Intn(n-1), 0)
				add("rprefix", 1+t.Intn(n-1), 0)
			}
			add("drop1", n-1, 0)
			add("only1", n-1, 0)
			for _, dens := range []int{10, 50, 90} {
				add("random", dens, t.U64())
			}
		}
	}
	// sample down to the budget, keeping order
	if budget > 0 && len(specs) > budget {
		keep := make([]sim.CrashSpec, 0, budget)
		step := float64(len(specs)) / float64(budget)
		off := float64(t.Intn(1000)) / 1000 * step
		for x := off; int(x) < len(specs) && len(keep) < budget; x += step {
			keep = append(keep, specs[int(x)])
		}
		specs = keep
	}
	rec := make([]work.OpenOpts, len(specs))
	for i := range rec {
		rec[i] = work.OpenOpts{GivePageSize: t.Chance(1, 2), NoFreelistSync: t.Chance(1, 3), ReadOnly: t.Chance(1, 5), PreLoadFreelist: t.Chance(1, 2)}
		if t.Chance(1, 4) {
			rec[i].InitialMmapSize = 1 << 20
		}
		if t.Chance(1, 2) {
			rec[i].Freelist = "hashmap"
		} else {
			rec[i].Freelist = "array"
		}
	}
	return specs, rec
}

// checkCrashState evaluates one crash image: decoder verdict, real recovery,
// follow-up transaction.
func checkCrashState(e *work.Exec, img []byte, spec sim.CrashSpec, acked, inflight int, rpath string, ro work.OpenOpts, out *Outcome) *work.Violation {
	desc := fmt.Sprintf("crash %+v (acknowledged txid %d, in flight %d)", spec, acked, inflight)
	bad := func(class, f string, a ...any) *work.Violation {
		return &work.Violation{Prop: "C01", Class: class, Msg: desc + ": " + fmt.Sprintf(f, a...)}
	}
	im, err := dec.Load(img)
	if err != nil {
		return bad("no-valid-meta", "decoder: %v", err)
	}
	wi, ok := im.Winner()
	if !ok {
		return bad("no-valid-meta", "both meta pages invalid (%s / %s)", im.Metas[0].Why, im.Metas[1].Why)
	}
	res := im.Decode(wi)
	t := int(res.Meta.Txid)
	if t < acked {
		return bad("lost-commit", "recovered txid %d is older than the acknowledged commit %d", t, acked)
	}
	if t != acked && t != inflight {
		return bad("future-state", "recovered txid %d is neither the acknowledged %d nor the in-flight %d", t, acked, inflight)
	}
	if t == inflight && t != acked {
		out.probe("recovered-inflight-commit", 1)
	} else if inflight >= 0 {
		out.probe("recovered-before-inflight", 1)
	}
	if !im.Metas[0].Valid || !im.Metas[1].Valid {
		out.probe("recovered-with-one-invalid-meta", 1)
	}
	want := e.Versions[t]
	if want == nil {
		return bad("unknown-version", "no model version for txid %d", t)
	}
	if res.Fatal != "" {
		return bad("undecodable", "version %d: %s", t, res.Fatal)
	}
	if d := model.Diff(res.Root, want); d != "" {
		return bad("content", "decoder reads txid %d but content differs from that version: %s", t, d)
	}
	if !res.Clean() {
		return bad("accounting", "txid %d: %s", t, res.ProblemString())
	}
	// real recovery
	if err := os.WriteFile(rpath, img, 0600); err != nil {
		out.HarnessErr = err.Error()
		return nil
	}
	rcfg := e.Cfg
	rcfg.MaxSize = 0 // the follow-up transaction is not part of the size-limited history
	r := work.NewExec(rpath, rcfg)
	r.Cur = want
	r.LastTxid = t
	if ro.ReadOnly {
		// inspection first: a read-only open of the crash image (no recovery write is possible) must already
		// present the recovered version and pass the integrity check
		out.probe("recovered-read-only-first", 1)
		rdb, rerr := bolt.Open(rpath, 0600, r.BoltOptions(ro))
		if rerr != nil {
			return bad("open-failed", "read-only Open of the crash image: %v", rerr)
		}
		var v *work.Violation
		_ = rdb.View(func(tx *bolt.Tx) error {
			if tx.ID() != t {
				v = bad("txid", "read-only open of the crash image is at txid %d, image decoded to %d", tx.ID(), t)
				return nil
			}
			if d := model.Diff(r.Dump(tx), want); d != "" {
				v = bad("content", "read-only open of the crash image differs from version %d: %s", t, d)
				return nil
			}
			for cerr := range tx.Check() {
				v = bad("check", "Tx.Check on the read-only opened crash image: %v", cerr)
				break
			}
			return nil
		})
		_ = rdb.Close()
		if v != nil {
			return v
		}
		ro.ReadOnly = false
	}
	bo := r.BoltOptions(ro)
	db, err := bolt.Open(rpath, 0600, bo)
	if err != nil {
		return bad("open-failed", "Open of the crash image: %v", err)
	}
	r.DB = db
	defer func() {
		if r.DB != nil {
			_ = r.DB.Close()
		}
	}()
	var gotID int
	_ = db.View(func(tx *bolt.Tx) error {
		gotID = tx.ID()
		got := r.Dump(tx)
		if d := model.Diff(got, want); d != "" {
			r.Viol = append(r.Viol, &work.Violation{Class: "content", Msg: "reopened database differs from version " + fmt.Sprint(t) + ": " + d})
		}
		n := 0
		for cerr := range tx.Check() {
			if n == 0 {
				r.Viol = append(r.Viol, &work.Violation{Class: "check", Msg: "Tx.Check after recovery: " + cerr.Error()})
			}
			n++
		}
		return nil
	})
	// Open may flush the freelist (one more txid) – content is the same
	if gotID != t && gotID != t+1 {
		return bad("txid", "reopened database is at txid %d, image decoded to %d", gotID, t)
	}
	if len(r.Viol) > 0 {
		return bad(r.Viol[0].Class, "%s", r.Viol[0].Msg)
	}
	// follow-up write transaction
	r.LastTxid = gotID
	r.Versions[gotID] = want
	tx := &work.Txn{Mode: "update", End: "commit", Ops: []work.Op{
		{Kind: "mkbi", Key: "recovery"},
		{Kind: "put", Path: []string{"recovery"}, Key: "after-crash", VLen: 100 + spec.Point%3000, VTag: 77},
		{Kind: "nextseq", Path: []string{"recovery"}},
	}}
	r.RunTx(tx)
	if !r.Failed() {
		r.CheckContent("follow-up commit")
		r.FileChecks = true
		r.CheckFile("follow-up commit")
	}
	if r.Failed() {
		return bad("followup-"+r.Viol[0].Class, "follow-up transaction: %s", r.Viol[0].Msg)
	}
	err = r.DB.Close()
	r.DB = nil
	if err != nil {
		return bad("close", "Close after recovery: %v", err)
	}
	return nil
}

func (cs crashsim) Shrinks(c *Case) []*Case {
	// shrinking the program invalidates the pinned crash state (log indices
	// shift), so candidates re-enumerate crash states
	var out []*Case
	for _, d := range shrinkProgram(c) {
		d.Extra = nil
		out = append(out, d)
	}
	return out
}

func init() {
	cs := crashsim{}
	real := "real: all of bbolt (tag verif), real file + mmap on tmpfs, real recovery Open/Check/commit on every crash image; simulated: durability (shadow disk fed by the pwrite/fdatasync/truncate/fsync hooks decides what survives), crash point, persisted subset of unsynced units, map iteration order"
	register(&Info{Prop: "C01", Engine: altEngine{[]Engine{cs, cs, cs, schedsim{}}}, Level: "fault_enumeration", QuickS: 60, ThoroughS: 900, RealStub: real,
		Rule:   "a seeded history is executed once while the shadow disk logs every I/O call; evaluations = crash states = (crash point after every I/O call and at tape-chosen unit boundaries inside writes) × (persisted subset of the not-yet-synced units: all 2^n subsets when n is small, else none/all/each-one-missing/each-one-alone/prefixes/reverse prefixes/last-write-only/random 10-50-90%). Each state: decoder picks the winning meta, txid must be the acknowledged or the in-flight one, content == that model version, accounting clean, then real Open + dump + Tx.Check + follow-up commit. distinct_nontrivial = distinct crash images (hash) that had at least one unsynced unit at the crash point. Every fourth run index is the concurrent arm: 2-3 writer tasks queueing for the writer lock plus readers run under the token scheduler while the shadow disk records the I/O of the whole run; crash states are built from that log and each must recover to the newest commit that had returned to its caller or to the one in flight, with exact accounting",
		Assume: []string{"POSIX durability: nothing is durable before a successful fdatasync/fsync; unsynced units persist in any subset, each unit atomically", "unit size is a swarm knob (8..4096 bytes)", "NoSync mode and crashes during creation of a brand-new file are excluded (README caveats)", "crash points are enumerated per history; histories and large subsets are sampled"}})
	register(&Info{Prop: "C06", Engine: altEngine{[]Engine{cs, schedsim{}}}, Level: "exploration", QuickS: 45, ThoroughS: 600, RealStub: real,
		Rule:   "one evaluation = one seeded history (writers, held readers of any age, rollbacks, reopenings); every pwrite issued by bbolt is intercepted before it happens and its page range intersected with the page sets (computed by dec/ at each commit) of the newest committed version, of every open reader's version, and the newest meta slot. distinct = distinct (final content hash, I/O log length) among histories with at least one commit",
		Assume: []string{"page sets come from the independent decoder", "even run indices: single-task histories (held readers, reopenings); odd run indices: the same monitor under the token scheduler with concurrent readers and writers, page sets computed when a commit's meta write completes"}})
}
