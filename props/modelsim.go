package props

import (
	"fmt"
	"os"
	"path/filepath"

	"go.etcd.io/bbolt/xverif/sim"
	"go.etcd.io/bbolt/xverif/work"
)

// modelsim is the fault-free single-task engine: seeded API programs executed
// against the real DB and the reference model side by side, with the
// independent decoder and the library's own integrity check after every
// commit and reopen.
type modelsim struct{}

func (modelsim) Name() string { return "modelsim" }

func modelParams(prop, tier string) work.GenParams {
	p := work.GenParams{MaxSteps: 14, MaxOps: 40, Reopen: true, Readers: true}
	if tier == "thorough" {
		p.MaxSteps, p.MaxOps = 40, 80
	}
	switch prop {
	case "C05":
		p.CursorHeavy = true
	case "C07":
		p.BucketHeavy = true
	case "C13":
		p.ReopenOpts = true
	}
	return p
}

func (m modelsim) Gen(prop, tier string, ts *sim.Tapes) *Case {
	cfg := work.GenConfig(ts.Get("cfg"))
	if prop != "C09" {
		k := ts.Get("knobs")
		cfg.NoSync = k.Chance(1, 8)
		cfg.NoStatistics = k.Chance(1, 12)
	}
	p := modelParams(prop, tier)
	p.Guards = ActiveGuards()
	// swarm: some runs concentrate on one aspect
	t := ts.Get("swarm")
	switch t.Pick(4, 1, 1, 1) {
	case 1:
		p.CursorHeavy = true
	case 2:
		p.BucketHeavy = true
	case 3:
		p.NoBigValues = true
	}
	prog := work.GenProgram(ts, cfg, p)
	c := &Case{Prop: prop, Engine: m.Name(), Tier: tier, Seed: ts.Seed, Run: ts.Run, Prog: prog,
		Tapes: map[string][]uint64{}, Params: map[string]int{}}
	if prop == "C12" && ts.Run%96 == 40 {
		// the in-system form of the >= 0xFFFF-entries freelist convention (props/hugefreelist.go)
		c.Params["hugefreelist"] = 1
		c.Prog = &work.Program{Cfg: cfg}
	}
	if prop == "C05" && ts.Run%64 == 9 {
		// the scenario with more than 65535 uncommitted keys in one leaf (props/hugeleaf.go)
		c.Params["hugeleaf"] = 1
		c.Prog = &work.Program{Cfg: cfg}
	}
	return c
}

func (m modelsim) Run(c *Case, dir string) *Outcome {
	out := &Outcome{}
	if c.Params["hugefreelist"] == 1 {
		hugeFreelist(c, dir, out)
		return out
	}
	if c.Params["hugeleaf"] == 1 {
		hugeLeaf(c, dir, out)
		return out
	}
	path := filepath.Join(dir, "db")
	os.Remove(path)
	defer os.Remove(path)
	order := sim.ReplayTape("order", c.Tapes["order"])
	if c.Tapes["order"] == nil {
		order = sim.NewTape(c.Seed, c.Run, "order")
	}
	w := &sim.World{MapOrder: c.Prog.Cfg.MapOrder, Order: order}
	var obs *flObserver
	if c.Prop == "C09" {
		obs = newFLObserver(path)
		w.FLObs = obs.On
	}
	w.Install()
	defer sim.Uninstall()

	e := work.NewExec(path, c.Prog.Cfg)
	e.FileChecks = true
	e.DeepCursor = true
	if c.Prop == "C12" {
		e.BackupEvery = 2
	}
	finished := false
	defer func() {
		// after a panic in the code under test the DB's locks may be held: leak it
		if finished && e.DB != nil {
			_ = e.Close()
		}
	}()
	if err := e.Open(e.DefaultOpts()); err != nil {
		out.HarnessErr = fmt.Sprintf("initial open: %v", err)
		return out
	}
	for i := range c.Prog.Steps {
		Tick()
		e.RunStep(i, &c.Prog.Steps[i])
		if e.Failed() {
			break
		}
	}
	if !e.Failed() {
		if err := e.Close(); err != nil {
			e.Viol = append(e.Viol, &work.Violation{Prop: "C04", Class: "close-error", Msg: err.Error(), Step: len(c.Prog.Steps)})
		}
	}
	finished = true
	out.Viol = e.Viol
	if obs != nil {
		out.Viol = append(out.Viol, obs.viol...)
		out.merge(obs.probes)
	}
	out.merge(e.Probes)
	out.Evals = 1
	if e.Probes["commit"] > 0 {
		h := e.Cur.Hash() ^ uint64(e.LastShape.MaxDepth)<<56 ^ uint64(e.LastShape.LeafPages)<<40 ^ uint64(e.LastShape.BranchPages)<<32 ^ uint64(e.LastTxid)<<20
		out.Distinct = append(out.Distinct, h)
	}
	// record the order tape so that a replay is exact
	if c.Tapes == nil {
		c.Tapes = map[string][]uint64{}
	}
	c.Tapes["order"] = append([]uint64(nil), order.Rec...)
	return out
}

func (m modelsim) Shrinks(c *Case) []*Case { return shrinkProgram(c) }

func init() {
	ms := modelsim{}
	real := "real: all of go.etcd.io/bbolt built from /repo with -tags verif, real file on tmpfs, real mmap; simulated: map iteration order / hashmap span choice (tape-chosen among legal outcomes); no stub"
	register(&Info{Prop: "C04", Engine: ms, Level: "exploration", QuickS: 45, ThoroughS: 600, RealStub: real,
		Rule:   "one evaluation = one seeded API program (transactions, commit/rollback/error/panic endings, reopen points, held readers) executed against the real DB and the reference model; every return value and error compared, full API dump compared after every write transaction and reopen. distinct = distinct (final model content hash, tree shape, txid) among programs that committed at least one change",
		Assume: []string{"reference model (model/) encodes the documented API semantics", "values above MaxValueSize are not generated (2 GiB allocation)"}})
	register(&Info{Prop: "C05", Engine: ms, Level: "exploration", QuickS: 45, ThoroughS: 600, RealStub: real,
		Rule:   "one evaluation = one seeded program biased to cursor call sequences (First/Last/Next/Prev/Seek) issued inside write transactions after same-transaction puts and range deletions, each call compared with the model cursor; every dump also walks Last/Prev. One run index in 64 is the huge-leaf scenario: a single write transaction inserts more than 65536 keys into one bucket (one in-memory leaf, nodes are split only at commit) and walks it forwards, backwards over the tail, seeks exact keys and gaps around and beyond position 65535, cross-checks Get, deletes beyond that position through Delete and Cursor.Delete, and repeats the checks after commit. distinct as for C04; non-trivial = at least one committed change",
		Assume: []string{"cursor semantics as stated in the property (sorted list with a position)", "a cursor call that exceeds the real-time watchdog is reported as a hang"}})
	register(&Info{Prop: "C07", Engine: altEngine{[]Engine{ms, ms, faultsim{}, sizesim{}}}, Level: "exploration", QuickS: 45, ThoroughS: 600, RealStub: real,
		Rule:   "one evaluation = one seeded program (biased to nested bucket create/delete/move); after every commit and reopen the file is decoded independently and every page below the high-water mark classified; compared with Tx.Check, Stats and Tx.Page. distinct as for C04",
		Assume: []string{"independent decoder dec/ implements the published v2 layout"}})
	register(&Info{Prop: "C12", Engine: altEngine{[]Engine{ms, ms, foreignsim{}}}, Level: "exploration", QuickS: 45, ThoroughS: 600, RealStub: real,
		Rule:   "one evaluation = one seeded program; after every commit and reopen the file bytes are decoded by dec/ (published v2 layout only) and compared with the API dump and the model; plus the golden corpus. One run index in 96 is the huge-freelist scenario: the real database frees more than 65535 pages, writes that list (0xFFFF count convention, multi-page freelist), and the decoder, Stats, Tx.Check and a reopen with the other backend must agree on it, also after the list shrinks below the threshold again. Every third run index is the foreign-file arm: the content reached by a seeded history is laid out as a version-2 file by an independent writer (dec/enc.go) with layout choices the current writer never makes but the format allows (arbitrary leaf/branch fill, scattered pages with free gaps, freelist page anywhere or absent, several elements on a page with overflow, gaps between element data, small buckets paged or inline, trailing pages beyond the high-water mark, newest meta in either slot); the real code must open it (read-only and read-write under tape-chosen options), dump exactly that content, agree with the independent accounting (Tx.Check, Stats, Tx.Page), and carry a second seeded history with reopenings on it, checked after every commit. distinct as for C04",
		Assume: []string{"independent decoder dec/ implements the published v2 layout", "the independent encoder is validated against the decoder on every file before the real code sees it (a disagreement is harness trouble, never a verdict)"}})
}
