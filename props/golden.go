package props

import (
	"compress/gzip"
	"crypto/sha256"
	"encoding/hex"
	"encoding/json"
	"fmt"
	"io"
	"os"
	"path/filepath"
	"strings"

	bolt "go.etcd.io/bbolt"
	"go.etcd.io/bbolt/xverif/dec"
	"go.etcd.io/bbolt/xverif/work"
)

// Golden corpus (C12): files produced once by the pinned build, committed
// (gzip-compressed) under /verif/golden with their content hash. Each file
// must open, dump identically (API and independent decoder), pass Tx.Check
// and accept a write transaction.

type goldenEntry struct {
	File      string `json:"file"`
	SHA256    string `json:"sha256"` // of the uncompressed file
	PageSize  int    `json:"page_size"`
	ModelHash string `json:"model_hash"`
	Summary   string `json:"summary"`
	What      string `json:"what"`
}

func gunzipTo(src, dst string) error {
	f, err := os.Open(src)
	if err != nil {
		return err
	}
	defer f.Close()
	zr, err := gzip.NewReader(f)
	if err != nil {
		return err
	}
	o, err := os.Create(dst)
	if err != nil {
		return err
	}
	defer o.Close()
	_, err = io.Copy(o, zr)
	return err
}

// goldenCheck verifies the corpus; every problem is a C12 violation.
func goldenCheck(dir string) *Outcome {
	out := &Outcome{}
	gdir := filepath.Join(VerifDir(), "golden")
	b, err := os.ReadFile(filepath.Join(gdir, "index.json"))
	if err != nil {
		out.HarnessErr = "golden corpus index missing: " + err.Error()
		return out
	}
	var idx []goldenEntry
	if err := json.Unmarshal(b, &idx); err != nil {
		out.HarnessErr = "golden corpus index: " + err.Error()
		return out
	}
	fail := func(f string, a ...any) {
		out.Viol = append(out.Viol, &work.Violation{Prop: "C12", Class: "golden", Msg: fmt.Sprintf(f, a...)})
	}
	for _, g := range idx {
		out.Evals++
		path := filepath.Join(dir, strings.TrimSuffix(g.File, ".gz"))
		if err := gunzipTo(filepath.Join(gdir, g.File), path); err != nil {
			out.HarnessErr = fmt.Sprintf("golden %s: %v", g.File, err)
			return out
		}
		data, _ := os.ReadFile(path)
		sum := sha256.Sum256(data)
		if hex.EncodeToString(sum[:]) != g.SHA256 {
			out.HarnessErr = fmt.Sprintf("golden %s: corpus file does not match its recorded SHA-256", g.File)
			os.Remove(path)
			return out
		}
		// independent decoder
		im, err := dec.Load(data)
		if err != nil {
			fail("%s (%s): decoder: %v", g.File, g.What, err)
			os.Remove(path)
			continue
		}
		wi, _ := im.Winner()
		res := im.Decode(wi)
		if res.Fatal != "" || !res.Clean() {
			fail("%s (%s): decoder accounting: %s", g.File, g.What, res.ProblemString())
		} else if h := fmt.Sprintf("%016x", res.Root.Hash()); h != g.ModelHash {
			fail("%s (%s): decoder reads content hash %s, recorded %s", g.File, g.What, h, g.ModelHash)
		}
		// the code under test
		func() {
			defer func() {
				if r := recover(); r != nil {
					fail("%s (%s): panic while reading a golden file: %v", g.File, g.What, r)
				}
			}()
			// an explicit page size that is not the file's must not matter: the file says what it uses
			other := 4096
			if g.PageSize == 4096 {
				other = 16384
			}
			var opts *bolt.Options
			if out.Evals%2 == 0 {
				opts = &bolt.Options{PageSize: other}
			}
			db, err := bolt.Open(path, 0600, opts)
			if err != nil {
				fail("%s (%s): Open(options %v): %v", g.File, g.What, opts, err)
				return
			}
			defer db.Close()
			if db.Info().PageSize != g.PageSize {
				fail("%s: page size %d, recorded %d", g.File, db.Info().PageSize, g.PageSize)
			}
			e := work.NewExec(path, work.Config{PageSize: g.PageSize})
			_ = db.View(func(tx *bolt.Tx) error {
				got := e.Dump(tx)
				if h := fmt.Sprintf("%016x", got.Hash()); h != g.ModelHash {
					fail("%s (%s): API dump has content hash %s (%s), recorded %s (%s)", g.File, g.What, h, got.Summary(), g.ModelHash, g.Summary)
				}
				for cerr := range tx.Check() {
					fail("%s (%s): Tx.Check: %v", g.File, g.What, cerr)
					break
				}
				return nil
			})
			if err := db.Update(func(tx *bolt.Tx) error {
				b, err := tx.CreateBucketIfNotExists([]byte("golden-write"))
				if err != nil {
					return err
				}
				return b.Put([]byte("k"), []byte("v"))
			}); err != nil {
				fail("%s (%s): write transaction on a golden file: %v", g.File, g.What, err)
			}
			var afterHash uint64
			_ = db.View(func(tx *bolt.Tx) error {
				for cerr := range tx.Check() {
					fail("%s (%s): Tx.Check after a write: %v", g.File, g.What, cerr)
					break
				}
				afterHash = e.Dump(tx).Hash()
				return nil
			})
			// what this build wrote into the old file must again be the published format
			if d2, rerr := os.ReadFile(path); rerr == nil {
				if im2, lerr := dec.Load(d2); lerr != nil {
					fail("%s (%s): after a write transaction the decoder cannot read the file: %v", g.File, g.What, lerr)
				} else if wi2, ok := im2.Winner(); ok {
					r2 := im2.Decode(wi2)
					if r2.Fatal != "" || !r2.Clean() {
						fail("%s (%s): after a write transaction: %s", g.File, g.What, r2.ProblemString())
					} else if r2.Root.Hash() != afterHash {
						fail("%s (%s): after a write transaction the decoder and the API disagree on the content", g.File, g.What)
					}
				}
			}
		}()
		os.Remove(path)
		out.probe("golden-files-verified", 1)
		out.Distinct = append(out.Distinct, hashStr(g.File+g.SHA256))
	}
	for _, v := range e2viol(out) {
		_ = v
	}
	return out
}

func e2viol(o *Outcome) []*work.Violation { return o.Viol }
