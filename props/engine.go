// Package props holds one engine per family of properties. An engine turns a
// set of choice tapes into a Case (the replayable artefact), executes a Case
// against the real bbolt code under the simulator, and reports an Outcome.
package props

import (
	"encoding/json"
	"fmt"
	"os"
	"sort"

	"go.etcd.io/bbolt/xverif/sim"
	"go.etcd.io/bbolt/xverif/work"
)

// Case is the self-contained, replayable description of one simulated run.
// Replaying reads nothing but this value and the code.
type Case struct {
	Prop    string              `json:"property"`
	Engine  string              `json:"engine"`
	Tier    string              `json:"tier,omitempty"`
	Seed    uint64              `json:"seed"`
	Run     uint64              `json:"run"`
	Prog    *work.Program       `json:"program,omitempty"`
	Clients [][]work.Step       `json:"clients,omitempty"`
	Tapes   map[string][]uint64 `json:"tapes,omitempty"` // explicit sched / fault / crash tapes
	Params  map[string]int      `json:"params,omitempty"`
	Extra   json.RawMessage     `json:"extra,omitempty"`
	// filled in when a violation is recorded (for humans and for the known-finding matcher)
	Violation *work.Violation `json:"violation,omitempty"`
	Trace     []string        `json:"trace,omitempty"`
}

func (c *Case) Clone() *Case {
	b, _ := json.Marshal(c)
	var d Case
	_ = json.Unmarshal(b, &d)
	return &d
}

// Outcome is what one executed case reports.
type Outcome struct {
	Viol        []*work.Violation
	Probes      map[string]int
	Faults      map[string]int // fault kinds that actually fired
	Evals       int            // evaluations inside this case (crash states, fault positions, corruptions …)
	Distinct    []uint64       // hashes of distinct non-trivial evaluations
	SimTimeNS   int64
	Decisions   int
	Trace       []string
	HarnessErr  string // harness trouble: never a verdict
	Sample      any
	Interleaved []uint64 // schedule fingerprints
}

func (o *Outcome) probe(name string, n int) {
	if o.Probes == nil {
		o.Probes = map[string]int{}
	}
	o.Probes[name] += n
}

func (o *Outcome) fault(name string, n int) {
	if o.Faults == nil {
		o.Faults = map[string]int{}
	}
	o.Faults[name] += n
}

func (o *Outcome) merge(m map[string]int) {
	for k, v := range m {
		o.probe(k, v)
	}
}

// First returns the first violation that belongs to prop ("" = any).
func (o *Outcome) First(prop string) *work.Violation {
	for _, v := range o.Viol {
		if prop == "" || v.Prop == prop {
			return v
		}
	}
	return nil
}

// Engine generates and runs cases.
type Engine interface {
	Name() string
	// Gen draws a case for the property from exploring tapes.
	Gen(prop, tier string, ts *sim.Tapes) *Case
	// Run executes a case using scratch directory dir.
	Run(c *Case, dir string) *Outcome
	// Shrinks proposes smaller variants of a failing case, simplest first.
	Shrinks(c *Case) []*Case
}

// Info describes how one property is decided.
type Info struct {
	Prop      string
	Engine    Engine
	Level     string // exploration | fault_enumeration
	Rule      string
	Assume    []string
	RealStub  string
	QuickS    int // default wall-clock budget, seconds
	ThoroughS int
}

var registry = map[string]*Info{}

func register(i *Info) { registry[i.Prop] = i }

// Lookup returns the registered info for a property id.
func Lookup(prop string) *Info { return registry[prop] }

// Props lists the registered property ids.
func Props() []string {
	var ps []string
	for p := range registry {
		ps = append(ps, p)
	}
	sort.Strings(ps)
	return ps
}

// SaveCase writes a case as a replay file.
func SaveCase(path string, c *Case) error {
	b, err := json.MarshalIndent(c, "", " ")
	if err != nil {
		return err
	}
	return os.WriteFile(path, b, 0644)
}

// LoadCase reads a replay file.
func LoadCase(path string) (*Case, error) {
	b, err := os.ReadFile(path)
	if err != nil {
		return nil, err
	}
	var c Case
	if err := json.Unmarshal(b, &c); err != nil {
		return nil, fmt.Errorf("%s: %w", path, err)
	}
	return &c, nil
}

// shrinkProgram proposes structurally smaller programs: fewer steps, fewer
// ops, simpler ops. Used by every engine whose case carries a Program.
func shrinkProgram(c *Case) []*Case {
	var out []*Case
	p := c.Prog
	if p == nil {
		return nil
	}
	with := func(f func(p *work.Program) bool) {
		d := c.Clone()
		if f(d.Prog) {
			out = append(out, d)
		}
	}
	n := len(p.Steps)
	// drop suffixes / halves / single steps
	for _, k := range []int{n / 2, n / 4, 1} {
		if k < 1 {
			continue
		}
		for start := 0; start+k <= n; start += k {
			s, kk := start, k
			with(func(p *work.Program) bool {
				p.Steps = append(p.Steps[:s:s], p.Steps[s+kk:]...)
				return true
			})
			if len(out) > 400 {
				return out
			}
		}
	}
	// drop ops inside transactions
	for si, st := range p.Steps {
		if st.Kind != "tx" {
			continue
		}
		m := len(st.Tx.Ops)
		for _, k := range []int{m / 2, m / 4, m / 8, 1} {
			if k < 1 {
				continue
			}
			for start := 0; start+k <= m; start += k {
				s, kk, sidx := start, k, si
				with(func(p *work.Program) bool {
					ops := p.Steps[sidx].Tx.Ops
					p.Steps[sidx].Tx.Ops = append(ops[:s:s], ops[s+kk:]...)
					return true
				})
				if len(out) > 1500 {
					return out
				}
			}
		}
	}
	// simplify ops
	for si, st := range p.Steps {
		if st.Kind != "tx" {
			continue
		}
		for oi, op := range st.Tx.Ops {
			sidx, oidx := si, oi
			if op.Pad > 0 {
				with(func(p *work.Program) bool { p.Steps[sidx].Tx.Ops[oidx].Pad = 0; return true })
			}
			if op.VLen > 8 {
				with(func(p *work.Program) bool { p.Steps[sidx].Tx.Ops[oidx].VLen = 1; return true })
			}
			if len(op.Calls) > 1 {
				for ci := range op.Calls {
					cidx := ci
					with(func(p *work.Program) bool {
						cs := p.Steps[sidx].Tx.Ops[oidx].Calls
						p.Steps[sidx].Tx.Ops[oidx].Calls = append(cs[:cidx:cidx], cs[cidx+1:]...)
						return true
					})
				}
			}
			if len(out) > 3000 {
				return out
			}
		}
	}
	// plainer configuration
	with(func(p *work.Program) bool {
		ch := p.Cfg.MapOrder != 0 || p.Cfg.FillPct != 0 || p.Cfg.StrictMode || p.Cfg.Mlock
		p.Cfg.MapOrder, p.Cfg.FillPct, p.Cfg.StrictMode, p.Cfg.Mlock = 0, 0, false, false
		return ch
	})
	with(func(p *work.Program) bool {
		ch := p.Cfg.AllocSize != 0 || p.Cfg.NoGrowSync
		p.Cfg.AllocSize, p.Cfg.NoGrowSync = 0, false
		return ch
	})
	return out
}

// Shrink greedily minimises a failing case: a candidate is kept iff running
// it yields a violation of the same property and class. budget is the number
// of candidate executions allowed.
func Shrink(e Engine, c *Case, v *work.Violation, dir string, budget int) (*Case, *work.Violation, int) {
	best, bestV := c, v
	used := 0
	for improved := true; improved && used < budget; {
		improved = false
		for _, cand := range e.Shrinks(best) {
			if used >= budget {
				break
			}
			used++
			out := e.Run(cand, dir)
			if out.HarnessErr != "" {
				continue
			}
			var hit *work.Violation
			for _, x := range out.Viol {
				if x.Prop == v.Prop && x.Class == v.Class {
					hit = x
					break
				}
			}
			if hit != nil {
				best, bestV = cand, hit
				improved = true
				break
			}
		}
	}
	return best, bestV, used
}

// altEngine rotates between several engines by run index (a property decided
// by more than one arm); a case remembers which arm produced it.
type altEngine struct{ arms []Engine }

func (e altEngine) Name() string {
	n := ""
	for i, a := range e.arms {
		if i > 0 {
			n += "+"
		}
		n += a.Name()
	}
	return n
}

func (e altEngine) Gen(prop, tier string, ts *sim.Tapes) *Case {
	return e.arms[int(ts.Run%uint64(len(e.arms)))].Gen(prop, tier, ts)
}

func (e altEngine) pick(c *Case) Engine {
	for _, a := range e.arms {
		if c.Engine == a.Name() {
			return a
		}
	}
	return e.arms[0]
}

func (e altEngine) Run(c *Case, dir string) *Outcome { return e.pick(c).Run(c, dir) }
func (e altEngine) Shrinks(c *Case) []*Case          { return e.pick(c).Shrinks(c) }
