package props

import (
	"bufio"
	"bytes"
	"crypto/sha256"
	"encoding/json"
	"errors"
	"fmt"
	"io"
	"os"
	"os/exec"
	"path/filepath"
	"runtime/debug"
	"strings"
	"sync"
	"syscall"
	"testing"
	"testing/synctest"
	"time"

	bolt "go.etcd.io/bbolt"
	"go.etcd.io/bbolt/cmd/bbolt/command"
	berrors "go.etcd.io/bbolt/errors"
	"go.etcd.io/bbolt/xverif/dec"
	"go.etcd.io/bbolt/xverif/model"
	"go.etcd.io/bbolt/xverif/sim"
	"go.etcd.io/bbolt/xverif/work"
)

// locksim decides C17: (a) open/close schedules of read-write and read-only
// handles on one path under the token scheduler and the fake clock; (b)
// arbitrary API programs and the CLI inspection commands against a read-only
// handle, watching every I/O call and the file hash; (c) writes into memory
// returned by read transactions.
type locksim struct{}

func (locksim) Name() string { return "locksim" }

type lockStep struct {
	RO        bool `json:"ro"`
	TimeoutMS int  `json:"timeout_ms"` // 0: wait indefinitely
	Before    int  `json:"before"`     // pauses before Open
	Hold      int  `json:"hold"`       // pauses while holding
	HoldMS    int  `json:"hold_ms"`    // fake time slept while holding
}

type lockExtra struct {
	Arm   string       `json:"arm"` // locks | readonly
	Tasks [][]lockStep `json:"tasks,omitempty"`
}

func (ls locksim) Gen(prop, tier string, ts *sim.Tapes) *Case {
	cfg := work.GenConfig(ts.Get("cfg"))
	cfg.StrictMode, cfg.Mlock = false, false
	t := ts.Get("lock")
	ex := lockExtra{Arm: []string{"locks", "readonly"}[t.Pick(1, 1)]}
	procEvery := 40
	if tier == "thorough" {
		procEvery = 8
	}
	if ts.Run%uint64(procEvery) == uint64(procEvery-1) {
		ex.Arm = "procs"
	}
	c := &Case{Prop: prop, Engine: ls.Name(), Tier: tier, Seed: ts.Seed, Run: ts.Run, Tapes: map[string][]uint64{},
		Params: map[string]int{"stickiness": []int{0, 50, 80}[t.Pick(1, 2, 2)]}}
	p := work.GenParams{MaxSteps: 6, MaxOps: 25, NoErrors: true, OnlyCommit: true, Guards: ActiveGuards()}
	if ex.Arm == "procs" {
		// separate OS processes, real time: short timeouts and holds
		c.Prog = &work.Program{Cfg: cfg}
		n := 2 + t.Intn(2)
		for i := 0; i < n; i++ {
			var steps []lockStep
			for j := 0; j < 2; j++ {
				steps = append(steps, lockStep{RO: t.Chance(1, 2), TimeoutMS: []int{0, 120, 300}[t.Pick(1, 2, 1)],
					Before: 0, HoldMS: []int{0, 40, 260}[t.Pick(1, 2, 2)]})
			}
			ex.Tasks = append(ex.Tasks, steps)
		}
	} else if ex.Arm == "locks" {
		c.Prog = &work.Program{Cfg: cfg}
		n := 2 + t.Intn(3)
		for i := 0; i < n; i++ {
			var steps []lockStep
			k := 1 + t.Intn(3)
			for j := 0; j < k; j++ {
				steps = append(steps, lockStep{RO: t.Chance(1, 2), TimeoutMS: []int{0, 50, 1000, 120}[t.Pick(2, 2, 2, 1)],
					Before: t.Intn(5), Hold: t.Intn(5), HoldMS: []int{0, 30, 200, 2000}[t.Pick(2, 2, 2, 1)]})
			}
			ex.Tasks = append(ex.Tasks, steps)
		}
	} else {
		// a populated file, then a program that throws everything at a read-only handle
		c.Prog = work.GenProgram(ts, cfg, p)
		rp := work.GenParams{MaxSteps: 6, MaxOps: 25, Guards: p.Guards}
		sub := sim.NewTapes(ts.Seed, ts.Run*977+5)
		ro := work.GenProgramFrom(sub, cfg, rp, work.FinalModel(c.Prog))
		for _, st := range ro.Steps {
			if st.Kind == "tx" {
				c.Clients = append(c.Clients, []work.Step{st})
			}
		}
	}
	c.Extra, _ = json.Marshal(ex)
	return c
}

func (ls locksim) Run(c *Case, dir string) (out *Outcome) {
	out = &Outcome{}
	var ex lockExtra
	_ = json.Unmarshal(c.Extra, &ex)
	if c.Tapes == nil {
		c.Tapes = map[string][]uint64{}
	}
	if ex.Arm == "readonly" {
		ls.runReadOnly(c, dir, out)
		return out
	}
	if ex.Arm == "procs" {
		ls.runProcs(c, &ex, dir, out)
		return out
	}
	if curT == nil {
		out.HarnessErr = "locksim needs the worker's testing.T"
		return out
	}
	defer func() {
		if r := recover(); r != nil {
			if out.First("") == nil {
				out.HarnessErr = "bubble: " + fmt.Sprint(r)
			}
		}
	}()
	synctest.Test(curT, func(t *testing.T) { ls.runLocks(c, &ex, dir, out) })
	return out
}

type handle struct {
	ro bool
}

func (ls locksim) runLocks(c *Case, ex *lockExtra, dir string, out *Outcome) {
	path := filepath.Join(dir, fmt.Sprintf("lockdb-%d", c.Run))
	os.Remove(path)
	defer os.Remove(path)
	cfg := c.Prog.Cfg
	// create the file first (outside the scheduler) - except in a third of the runs, where the file does not exist
	// yet and the openers race to create it: whoever gets the lock first initialises it, nobody else may
	fresh := c.Run%3 == 2
	if !fresh {
		db0, err := bolt.Open(path, 0600, &bolt.Options{PageSize: cfg.PageSize})
		if err != nil {
			out.HarnessErr = err.Error()
			return
		}
		_ = db0.Close()
	} else {
		out.probe("lock-arm-file-created-by-the-racing-openers", 1)
	}
	holds := 0           // read-write holders that completed their update
	created := !fresh    // a read-write Open has returned successfully: the file is an initialised database
	var schedTape *sim.Tape
	if c.Tapes["sched"] != nil {
		schedTape = sim.ReplayTape("sched", c.Tapes["sched"])
	} else {
		schedTape = sim.NewTape(c.Seed, c.Run, "sched")
	}
	s := sim.NewSched(schedTape)
	s.Stickiness = c.Params["stickiness"]
	s.KeepTrace = os.Getenv("VERIF_TRACE") != ""
	w := &sim.World{Sched: s}
	w.Install()
	defer sim.Uninstall()
	var viol []*work.Violation
	fail := func(class, f string, a ...any) {
		if len(viol) < 10 {
			viol = append(viol, &work.Violation{Prop: "C17", Class: class, Msg: fmt.Sprintf(f, a...)})
		}
	}
	open := map[*bolt.DB]*handle{}
	type pending struct {
		ro       bool
		conflict bool
	}
	pend := map[int]*pending{}
	conflicts := func(ro bool) bool {
		for _, h := range open {
			if !ro || !h.ro {
				return true
			}
		}
		return false
	}
	for ti, steps := range ex.Tasks {
		ti, steps := ti, steps
		s.Go(fmt.Sprintf("opener%d", ti), func(t *sim.Task) {
			for _, st := range steps {
				for i := 0; i < st.Before && !s.Draining; i++ {
					t.Pause("opener.before")
				}
				p := &pending{ro: st.RO, conflict: conflicts(st.RO)}
				// another Open still in progress may already hold the file lock
				for _, q := range pend {
					if !q.ro || !st.RO {
						q.conflict, p.conflict = true, true
					}
				}
				pend[ti] = p
				createdAtInvoke := created
				t0 := time.Now()
				db, err := bolt.Open(path, 0600, &bolt.Options{ReadOnly: st.RO, Timeout: time.Duration(st.TimeoutMS) * time.Millisecond})
				el := time.Since(t0)
				delete(pend, ti)
				switch {
				case err == nil:
					if conflicts(st.RO) {
						fail("lock-not-exclusive", "Open(readOnly=%v) succeeded while %d other handle(s) with a conflicting mode are open", st.RO, len(open))
					}
					open[db] = &handle{ro: st.RO}
					if !st.RO {
						created = true
					}
					for _, q := range pend {
						if !q.ro || !st.RO {
							q.conflict = true
						}
					}
					out.probe("open-ok", 1)
					if p.conflict {
						out.probe("open-ok-after-waiting", 1)
					}
				case errors.Is(err, berrors.ErrTimeout):
					out.fault("lock-timeout-fired", 1)
					if st.TimeoutMS == 0 {
						fail("timeout-without-timeout", "Open without a timeout returned ErrTimeout")
					}
					if !p.conflict {
						fail("timeout-without-conflict", "Open(readOnly=%v, timeout %dms) returned ErrTimeout although no conflicting handle was open at any time during the call", st.RO, st.TimeoutMS)
					}
					if el < time.Duration(st.TimeoutMS-50)*time.Millisecond {
						fail("timeout-too-early", "Open(timeout %dms) gave up after %v", st.TimeoutMS, el)
					}
					continue
				case fresh && st.RO && !createdAtInvoke:
					// a read-only open cannot create the file, and one that meets the still empty file before its
					// creator has initialised it fails one way or another (ENOENT, invalid database, EBADF from the
					// refused initialisation): any error is fine, as long as it is an error
					out.probe("read-only-open-before-creation", 1)
					continue
				default:
					fail("open-error", "Open(readOnly=%v): %v", st.RO, err)
					continue
				}
				for i := 0; i < st.Hold && !s.Draining; i++ {
					t.Pause("opener.hold")
				}
				if st.HoldMS > 0 && !s.Draining {
					time.Sleep(time.Duration(st.HoldMS) * time.Millisecond)
				}
				if !st.RO {
					// a read-write holder really writes
					if err := db.Update(func(tx *bolt.Tx) error {
						b, err := tx.CreateBucketIfNotExists([]byte("locks"))
						if err != nil {
							return err
						}
						_, err = b.NextSequence()
						return err
					}); err != nil {
						fail("update-error", "Update by the lock holder: %v", err)
					} else {
						holds++
					}
				}
				cerr := db.Close()
				delete(open, db)
				if cerr != nil {
					fail("close-error", "Close: %v", cerr)
				}
			}
		})
	}
	s.Run()
	out.Decisions = s.Decisions
	out.SimTimeNS = int64(time.Since(s.SimStart))
	out.Interleaved = []uint64{s.Fingerprint()}
	out.Trace = s.Trace
	out.probe("time-advances", s.TimeAdv)
	c.Tapes["sched"] = append([]uint64(nil), schedTape.Rec...)
	for _, p := range s.TaskPanics() {
		fail("panic", "panic in an opener task: %s", p)
	}
	if s.Deadlock != "" || s.Stuck {
		fail("open-never-returns", "an Open/Close never returned: %s", s.Deadlock)
		s.Abort()
	} else if len(viol) == 0 && holds > 0 {
		// every read-write holder advanced one counter under the lock: nothing of that may be lost (two holders at
		// once, or a late opener re-initialising a file somebody else created, would lose increments)
		sim.Uninstall()
		if dbf, err := bolt.Open(path, 0600, &bolt.Options{ReadOnly: true}); err != nil {
			fail("final-open", "Open after all handles were closed: %v", err)
		} else {
			var seq uint64
			_ = dbf.View(func(tx *bolt.Tx) error {
				if b := tx.Bucket([]byte("locks")); b != nil {
					seq = b.Sequence()
				}
				return nil
			})
			_ = dbf.Close()
			if seq != uint64(holds) {
				fail("updates-lost-under-the-lock", "%d read-write holders each advanced the counter once under the file lock, the file says %d", holds, seq)
			}
			out.probe("lock-arm-counter-checked", 1)
		}
	}
	out.Viol = viol
	out.Evals = 1
	out.Distinct = append(out.Distinct, s.Fingerprint())
	out.Sample = map[string]any{"run": c.Run, "arm": "locks", "tasks": ex.Tasks, "decisions": s.Decisions, "fresh_file": fresh}
}

func fileHash(path string) [32]byte {
	b, _ := os.ReadFile(path)
	return sha256.Sum256(b)
}

func runCLI(args ...string) (string, error) {
	cmd := command.NewRootCommand()
	var buf bytes.Buffer
	cmd.SetOut(&buf)
	cmd.SetErr(&buf)
	cmd.SetArgs(args)
	cmd.SilenceUsage = true
	cmd.SilenceErrors = true
	// some commands print to os.Stdout directly: keep the worker's output clean
	old := os.Stdout
	r, wr, perr := os.Pipe()
	if perr == nil {
		os.Stdout = wr
		go func() { _, _ = io.Copy(io.Discard, r) }()
	}
	var err error
	func() {
		// a panic in the tool is a crash of the real process: non-zero exit status
		defer func() {
			if p := recover(); p != nil {
				err = fmt.Errorf("bbolt %s crashed: %v", args[0], p)
			}
		}()
		err = cmd.Execute()
	}()
	if perr == nil {
		os.Stdout = old
		_ = wr.Close()
	}
	return buf.String(), err
}

// cliOnNonDatabases: the inspection commands open their argument read-only; pointed at an empty file or at junk
// they may fail in any way, but the file must stay byte-identical.
func (ls locksim) cliOnNonDatabases(dir string, ps int, fail func(string, string, ...any), out *Outcome) {
	junk := make([]byte, 3*ps)
	for i := range junk {
		junk[i] = byte(i*11 + 5)
	}
	for _, cs := range []struct {
		name string
		data []byte
	}{{"an empty file", nil}, {"three pages of junk", junk}} {
		p := filepath.Join(dir, "notadb-cli")
		for _, a := range [][]string{{"check", p}, {"dump", p, "0"}, {"page", p, "0"}, {"pages", p}, {"buckets", p}, {"stats", p}, {"inspect", p}, {"info", p}, {"keys", p, "b"}, {"get", p, "b", "k"}} {
			if err := os.WriteFile(p, cs.data, 0600); err != nil {
				return
			}
			_, err := runCLI(a...)
			out.probe("cli-on-a-non-database", 1)
			if got, rerr := os.ReadFile(p); rerr == nil && !bytes.Equal(got, cs.data) {
				fail("cli-changed-file", "bbolt %s on %s (err=%v) changed the file: %d bytes before, %d bytes after", a[0], cs.name, err, len(cs.data), len(got))
			}
		}
		os.Remove(p)
	}
}

func (ls locksim) runReadOnly(c *Case, dir string, out *Outcome) {
	path := filepath.Join(dir, "rodb")
	os.Remove(path)
	defer os.Remove(path)
	cfg := c.Prog.Cfg
	var viol []*work.Violation
	fail := func(class, f string, a ...any) {
		if len(viol) < 10 {
			viol = append(viol, &work.Violation{Prop: "C17", Class: class, Msg: fmt.Sprintf(f, a...)})
		}
	}
	// populate read-write (fault free, unobserved)
	e := work.NewExec(path, cfg)
	if err := e.Open(e.DefaultOpts()); err != nil {
		out.HarnessErr = err.Error()
		return
	}
	for i := range c.Prog.Steps {
		if c.Prog.Steps[i].Kind == "tx" {
			e.RunStep(i, &c.Prog.Steps[i])
		}
	}
	if e.Failed() {
		out.Viol = e.Viol
		_ = e.Close()
		return
	}
	_ = e.Close()
	before := fileHash(path)
	want := e.Cur

	// read-only handle under the I/O observer
	disk := sim.NewDisk(path)
	w := &sim.World{Disk: disk}
	w.Install()
	defer sim.Uninstall()
	ro := e.DefaultOpts()
	ro.ReadOnly = true
	ro.PreLoadFreelist = c.Run%2 == 0
	r := work.NewExec(path, cfg)
	r.Cur = want
	r.LastTxid = e.LastTxid
	if err := r.Open(ro); err != nil {
		fail("ro-open", "read-only Open: %v", err)
		out.Viol = viol
		return
	}
	// a second read-only handle may coexist; a read-write one must be refused
	if db2, err := bolt.Open(path, 0600, &bolt.Options{ReadOnly: true, Timeout: 10 * time.Millisecond}); err != nil {
		fail("ro-not-shared", "second read-only Open failed: %v", err)
	} else {
		_ = db2.Close()
	}
	if db3, err := bolt.Open(path, 0600, &bolt.Options{Timeout: 60 * time.Millisecond}); err == nil {
		fail("lock-not-exclusive", "read-write Open succeeded while a read-only handle is open")
		_ = db3.Close()
	} else if !errors.Is(err, berrors.ErrTimeout) {
		fail("open-error", "read-write Open against a read-only holder: %v", err)
	} else {
		out.fault("lock-timeout-fired", 1)
	}
	// every kind of call, including all mutators
	for _, cl := range c.Clients {
		for i := range cl {
			st := cl[i]
			tx := *st.Tx
			if tx.Mode == "update" || tx.Mode == "rw" {
				// Begin(true) must be refused …
				r.RunTx(&tx)
				out.probe("rw-tx-refused", 1)
				// … and the same mutators inside a read transaction must be refused too
				tx.Mode, tx.End = "view", "rollback"
			}
			r.RunTx(&tx)
			out.probe("ro-tx", 1)
		}
	}
	if err := r.DB.Update(func(tx *bolt.Tx) error { return nil }); !errors.Is(err, berrors.ErrDatabaseReadOnly) {
		fail("ro-update", "Update on a read-only DB returned %v", err)
	}
	if err := r.DB.Batch(func(tx *bolt.Tx) error { return nil }); !errors.Is(err, berrors.ErrDatabaseReadOnly) {
		fail("ro-batch", "Batch on a read-only DB returned %v", err)
	}
	_ = r.DB.Sync
	r.CheckContent("read-only program")
	// (c) memory handed out by a read transaction is not a writable view of the file
	ls.scribble(r, fail, out)
	for _, v := range r.Viol {
		if v.Prop != "C17" {
			v.Msg = v.Prop + "/" + v.Class + ": " + v.Msg
			v.Prop, v.Class = "C17", "read-only-handle-misbehaves"
		}
		viol = append(viol, v)
	}
	if err := r.DB.Close(); err != nil {
		fail("close-error", "%v", err)
	}
	r.DB = nil
	if disk.Counts["write"]+disk.Counts["truncate"]+disk.Counts["fsync"]+disk.Counts["fdatasync"] > 0 {
		fail("ro-handle-wrote", "a read-only handle issued I/O that modifies the file: %v", disk.Counts)
	}
	if fileHash(path) != before {
		fail("file-changed", "the file's SHA-256 changed although it was only opened read-only")
	}
	// (c') the same for read transactions of a read-write handle: what they hand out is not a writable view either
	if len(viol) == 0 {
		rw := work.NewExec(path, cfg)
		rw.Cur = want
		rw.LastTxid = r.LastTxid
		if err := rw.Open(rw.DefaultOpts()); err != nil {
			fail("rw-open", "read-write Open after the read-only handle was closed: %v", err)
		} else {
			ls.scribble(rw, fail, out)
			for _, v := range rw.Viol {
				v.Msg = "after writing into memory returned by a read transaction of a read-write handle: " + v.Prop + "/" + v.Class + ": " + v.Msg
				v.Prop, v.Class = "C17", "returned-memory-writable"
				viol = append(viol, v)
			}
			_ = rw.DB.Close()
			rw.DB = nil
			out.probe("scribble-on-read-write-handle", 1)
			if data, err := os.ReadFile(path); err == nil && len(rw.Viol) == 0 {
				if im, err := dec.Load(data); err == nil {
					if wi, ok := im.Winner(); ok {
						if d := model.Diff(im.Decode(wi).Root, want); d != "" {
							fail("returned-memory-writable", "after writing into memory returned by a read transaction the file decodes to different content: %s", d)
						}
					}
				}
			}
			before = fileHash(path) // (a read-write open may have flushed a freelist)
		}
	}
	// an Open that fails must not leave the file locked
	ls.failedOpens(dir, cfg.PageSize, fail, out)
	// CLI inspection commands
	sim.Uninstall()
	ls.cliOnNonDatabases(dir, cfg.PageSize, fail, out)
	keysArgs := []string{"keys", path}
	getArgs := []string{"get", path}
	var bname, kname string
	for _, k := range want.Keys() {
		if en := want.M[k]; en.B != nil {
			for _, kk := range en.B.Keys() {
				if en.B.M[kk].B == nil && len(kk) < 64 && printable(kk) && printable(k) {
					bname, kname = k, kk
				}
			}
			if bname == "" && printable(k) {
				bname = k
			}
		}
	}
	cmds := [][]string{{"check", path}, {"dump", path, "0", "1"}, {"page", path, "0", "2"}, {"pages", path}, {"buckets", path}, {"stats", path}, {"inspect", path}, {"info", path}}
	if bname != "" {
		cmds = append(cmds, append(keysArgs, bname))
	}
	if kname != "" {
		cmds = append(cmds, append(getArgs, bname, kname))
	}
	for _, a := range cmds {
		o, err := runCLI(a...)
		out.probe("cli-"+a[0], 1)
		if err != nil {
			fail("cli-error", "bbolt %s on a consistent file failed: %v (%s)", a[0], err, firstLine(o))
		}
		if fileHash(path) != before {
			fail("cli-changed-file", "bbolt %s changed the file", a[0])
			break
		}
	}
	// the decoder still reads the same content
	if data, err := os.ReadFile(path); err == nil {
		if im, err := dec.Load(data); err == nil {
			if wi, ok := im.Winner(); ok {
				if d := model.Diff(im.Decode(wi).Root, want); d != "" {
					fail("content-changed", "after read-only use the file decodes to different content: %s", d)
				}
			}
		}
	}
	out.Viol = append(out.Viol, viol...)
	out.Evals = 1
	out.Distinct = append(out.Distinct, mixHash(want.Hash(), uint64(len(c.Clients)), c.Run))
	out.Sample = map[string]any{"run": c.Run, "arm": "readonly", "ro_transactions": len(c.Clients), "cli_commands": len(cmds), "content": want.Summary()}
}

func printable(s string) bool {
	for i := 0; i < len(s); i++ {
		if s[i] < 0x21 || s[i] > 0x7e {
			return false
		}
	}
	return len(s) > 0
}

func firstLine(s string) string {
	for i := 0; i < len(s); i++ {
		if s[i] == '\n' {
			return s[:i]
		}
	}
	return s
}

// scribble tries to modify every slice a read transaction hands out.
func (ls locksim) scribble(r *work.Exec, fail func(string, string, ...any), out *Outcome) {
	old := debug.SetPanicOnFault(true)
	defer debug.SetPanicOnFault(old)
	tryWrite := func(b []byte) (faulted bool) {
		if len(b) == 0 {
			return true
		}
		defer func() {
			if rec := recover(); rec != nil {
				faulted = true
			}
		}()
		b[0] ^= 0xff
		return false
	}
	_ = r.DB.View(func(tx *bolt.Tx) error {
		var walk func(b *bolt.Bucket, depth int)
		n := 0
		walk = func(b *bolt.Bucket, depth int) {
			_ = b.ForEach(func(k, v []byte) error {
				if n > 400 {
					return nil
				}
				n++
				for _, sl := range [][]byte{k, v} {
					if sl == nil {
						continue
					}
					if tryWrite(sl) {
						out.probe("scribble-faulted", 1)
					} else {
						out.probe("scribble-hit-private-copy", 1)
					}
				}
				if v == nil && depth < 4 {
					if nb := b.Bucket(k); nb != nil {
						walk(nb, depth+1)
					}
				}
				return nil
			})
		}
		_ = tx.ForEach(func(name []byte, b *bolt.Bucket) error {
			if tryWrite(name) {
				out.probe("scribble-faulted", 1)
			}
			walk(b, 0)
			return nil
		})
		return nil
	})
	// whatever happened, the stored content is unchanged
	r.CheckContent("scribbling into returned memory")
}

func (ls locksim) Shrinks(c *Case) []*Case {
	var ex lockExtra
	_ = json.Unmarshal(c.Extra, &ex)
	var out []*Case
	if ex.Arm == "locks" {
		for i := range ex.Tasks {
			e2 := ex
			e2.Tasks = append(append([][]lockStep(nil), ex.Tasks[:i]...), ex.Tasks[i+1:]...)
			d := c.Clone()
			d.Extra, _ = json.Marshal(e2)
			out = append(out, d)
		}
		for i, steps := range ex.Tasks {
			for j := range steps {
				e2 := ex
				e2.Tasks = append([][]lockStep(nil), ex.Tasks...)
				e2.Tasks[i] = append(append([]lockStep(nil), steps[:j]...), steps[j+1:]...)
				d := c.Clone()
				d.Extra, _ = json.Marshal(e2)
				out = append(out, d)
			}
		}
		return out
	}
	for i := range c.Clients {
		d := c.Clone()
		d.Clients = append(d.Clients[:i:i], d.Clients[i+1:]...)
		out = append(out, d)
	}
	out = append(out, shrinkProgram(c)...)
	return out
}

func init() {
	register(&Info{Prop: "C17", Engine: locksim{}, Level: "exploration", QuickS: 45, ThoroughS: 600,
		RealStub: "real: all of bbolt, real flock(2) on separate open file descriptions (two Opens of one path in one process conflict exactly like two processes), real PROT_READ mapping, the CLI commands run in-process from cmd/bbolt/command; simulated: which task runs next and the clock (flock retry sleeps and timeouts run on the synctest fake clock); observed: every I/O call of the read-only handle through the hooks. Separate OS processes are not used (stated limit).",
		Rule:     "two arms, one evaluation each per seeded run. locks: 2-4 tasks perform Open(rw|ro, timeout 0/50ms/120ms/1s)/hold/Close sequences on one path under the token scheduler; oracle: an Open never succeeds while a handle with a conflicting mode is open, ErrTimeout only with a timeout, only if a conflicting handle was open at some time during the call, and not before timeout minus one retry interval; every call returns. readonly: a seeded history populates a file, then a seeded program of all API calls incl. every mutator runs against a read-only handle (Begin(true)/Update/Batch refused, mutators in read transactions refused, content equals the model), zero write/sync/truncate calls observed, file SHA-256 unchanged, a second read-only Open coexists and a read-write Open times out, the 10 CLI inspection commands succeed and leave the file byte-identical, and one byte is written into every slice a read transaction returns (must fault or leave stored content unchanged). distinct = distinct schedule fingerprints (locks) / (content, program) pairs (readonly)",
		Assume:   []string{"flock semantics of separate processes are represented by separate open file descriptions in one process", "an upper bound on how late ErrTimeout may arrive is not asserted (a descheduled task may legitimately be late)"}})
}

// ---------------------------------------------------------------------------
// separate OS processes (real flock between processes, real time)

type procIval struct {
	ro                 bool
	subFrom, subTo     time.Time // the handle was certainly open throughout [subFrom, subTo]
	superFrom, superTo time.Time // the handle can only have been open within [superFrom, superTo]
}

// runProcs steps 2-3 helper processes (the worker binary in lock-helper mode)
// through Open/hold/Close sequences on one path. Timing is the operating
// system's: the oracle only uses intervals that are sound whatever the delays
// (see procIval). Replay of this arm is best-effort.
func (ls locksim) runProcs(c *Case, ex *lockExtra, dir string, out *Outcome) {
	path := filepath.Join(dir, fmt.Sprintf("procdb-%d", c.Run))
	os.Remove(path)
	defer os.Remove(path)
	db0, err := bolt.Open(path, 0600, &bolt.Options{PageSize: c.Prog.Cfg.PageSize})
	if err != nil {
		out.HarnessErr = err.Error()
		return
	}
	_ = db0.Close()
	var mu sync.Mutex
	var ivals []*procIval
	type call struct {
		ro        bool
		from, to  time.Time
		timedOut  bool
		timeoutMS int
	}
	var calls []call
	var viol []*work.Violation
	fail := func(class, f string, a ...any) {
		mu.Lock()
		if len(viol) < 10 {
			viol = append(viol, &work.Violation{Prop: "C17", Class: class, Msg: fmt.Sprintf(f, a...)})
		}
		mu.Unlock()
	}
	var wg sync.WaitGroup
	for ti, steps := range ex.Tasks {
		ti, steps := ti, steps
		wg.Add(1)
		go func() {
			defer wg.Done()
			cmd := exec.Command(os.Args[0], "-test.run", "^TestLockHelper$", "-test.timeout", "2m")
			cmd.Env = append(os.Environ(), "VERIF_LOCK_HELPER=1", "VERIF_SPEC=")
			stdin, _ := cmd.StdinPipe()
			stdout, _ := cmd.StdoutPipe()
			if err := cmd.Start(); err != nil {
				fail("helper", "cannot start helper process: %v", err)
				return
			}
			defer func() { _ = stdin.Close(); _ = cmd.Wait() }()
			rd := bufio.NewReader(stdout)
			ask := func(line string) string {
				_, _ = io.WriteString(stdin, line+"\n")
				for {
					resp, err := rd.ReadString('\n')
					if err != nil {
						return "eof"
					}
					resp = strings.TrimSpace(resp)
					if strings.HasPrefix(resp, "R ") {
						return resp[2:]
					}
				}
			}
			for _, st := range steps {
				sent := time.Now()
				mode := "rw"
				if st.RO {
					mode = "ro"
				}
				resp := ask(fmt.Sprintf("open %s %d %s", mode, st.TimeoutMS, path))
				got := time.Now()
				mu.Lock()
				calls = append(calls, call{ro: st.RO, from: sent, to: got, timedOut: resp == "timeout", timeoutMS: st.TimeoutMS})
				mu.Unlock()
				switch resp {
				case "ok":
					iv := &procIval{ro: st.RO, subFrom: got, superFrom: sent}
					time.Sleep(time.Duration(st.HoldMS) * time.Millisecond)
					iv.subTo = time.Now()
					r2 := ask("close")
					iv.superTo = time.Now()
					if r2 != "ok" {
						fail("close-error", "helper %d: Close: %s", ti, r2)
					}
					mu.Lock()
					ivals = append(ivals, iv)
					mu.Unlock()
				case "timeout":
					if st.TimeoutMS == 0 {
						fail("timeout-without-timeout", "Open without a timeout returned ErrTimeout (separate process)")
					}
					if el := got.Sub(sent); el < time.Duration(st.TimeoutMS-50)*time.Millisecond {
						fail("timeout-too-early", "Open(timeout %dms) in a separate process gave up after %v", st.TimeoutMS, el)
					}
				default:
					fail("open-error", "helper %d: Open(%s): %s", ti, mode, resp)
				}
			}
		}()
	}
	done := make(chan struct{})
	go func() { wg.Wait(); close(done) }()
	select {
	case <-done:
	case <-time.After(90 * time.Second):
		fail("open-never-returns", "helper processes did not finish their Open/Close sequences within 90 s")
	}
	mu.Lock()
	defer mu.Unlock()
	// (1) two conflicting handles certainly open at the same time
	for i := 0; i < len(ivals); i++ {
		for j := i + 1; j < len(ivals); j++ {
			a, b := ivals[i], ivals[j]
			if a.ro && b.ro {
				continue
			}
			if a.subFrom.Before(b.subTo) && b.subFrom.Before(a.subTo) {
				viol = append(viol, &work.Violation{Prop: "C17", Class: "lock-not-exclusive", Msg: fmt.Sprintf("two processes held conflicting handles (readOnly=%v / readOnly=%v) at the same time", a.ro, b.ro)})
			}
		}
	}
	// (2) a timeout without any conflicting handle possibly open during the call
	for _, cl := range calls {
		if !cl.timedOut {
			continue
		}
		out.fault("lock-timeout-fired(processes)", 1)
		conflict := false
		for _, iv := range ivals {
			if (!cl.ro || !iv.ro) && iv.superFrom.Before(cl.to) && cl.from.Before(iv.superTo) {
				conflict = true
			}
		}
		if !conflict {
			viol = append(viol, &work.Violation{Prop: "C17", Class: "timeout-without-conflict", Msg: fmt.Sprintf("a process's Open(readOnly=%v, timeout %dms) returned ErrTimeout although no conflicting handle can have been open during the call", cl.ro, cl.timeoutMS)})
		}
	}
	out.probe("process-arm-opens", len(calls))
	out.probe("process-arm-handles", len(ivals))
	out.Viol = viol
	out.Evals = 1
	out.Distinct = append(out.Distinct, mixHash(c.Run, uint64(len(calls)), 0x9c))
	out.Sample = map[string]any{"run": c.Run, "arm": "procs (separate OS processes, real time)", "tasks": ex.Tasks}
}

// failedOpens: files that are not databases (too small, junk, both metas
// damaged) are opened read-only and read-write; every such Open must fail and
// afterwards nobody may hold a lock on the file (probed with a non-blocking
// exclusive flock on a fresh descriptor). The garbage collector is paused so
// that a leaked descriptor is not closed by a finalizer behind our back.
func (ls locksim) failedOpens(dir string, ps int, fail func(string, string, ...any), out *Outcome) {
	old := debug.SetGCPercent(-1)
	defer debug.SetGCPercent(old)
	junk := func(n int) []byte {
		b := make([]byte, n)
		for i := range b {
			b[i] = byte(i*7 + 13)
		}
		return b
	}
	cases := []struct {
		name string
		data []byte
	}{{"100 bytes of junk", junk(100)}, {"1500 bytes of junk", junk(1500)}, {"three pages of junk", junk(3 * ps)}, {"an empty file", []byte{}}}
	for ci, cs := range cases {
		for _, ro := range []bool{true, false} {
			if len(cs.data) == 0 && !ro {
				continue // a read-write open of an empty file initialises it: legitimate
			}
			p := filepath.Join(dir, fmt.Sprintf("notadb-%d-%v", ci, ro))
			if err := os.WriteFile(p, cs.data, 0600); err != nil {
				continue
			}
			db, err := bolt.Open(p, 0600, &bolt.Options{ReadOnly: ro, Timeout: 20 * time.Millisecond, PageSize: []int{0, ps}[ci%2]})
			if ro {
				// whatever a read-only open answers, it never changes a byte of the file
				if got, rerr := os.ReadFile(p); rerr == nil && !bytes.Equal(got, cs.data) {
					fail("read-only-open-changed-file", "Open(readOnly=true) of %s (err=%v) changed the file: %d bytes before, %d bytes after", cs.name, err, len(cs.data), len(got))
				}
				out.probe("read-only-open-of-a-non-database", 1)
			}
			if err == nil {
				fail("opened-invalid", "Open(readOnly=%v) of %s succeeded", ro, cs.name)
				_ = db.Close()
				os.Remove(p)
				continue
			}
			out.probe("failed-opens-probed", 1)
			if f, ferr := os.OpenFile(p, os.O_RDWR, 0); ferr == nil {
				if lerr := syscall.Flock(int(f.Fd()), syscall.LOCK_EX|syscall.LOCK_NB); lerr != nil {
					fail("failed-open-keeps-lock", "Open(readOnly=%v) of %s failed (%v) but the file is still locked afterwards: no other open of it can succeed", ro, cs.name, err)
				} else {
					_ = syscall.Flock(int(f.Fd()), syscall.LOCK_UN)
				}
				_ = f.Close()
			}
			os.Remove(p)
		}
	}
}
