package props

import (
	"encoding/json"
	"os"
	"path/filepath"
	"strings"

	"go.etcd.io/bbolt/xverif/work"
)

// Finding is one entry of known_findings.json.
type Finding struct {
	ID       string `json:"id"`
	Property string `json:"property"`
	Status   string `json:"status"` // open | fixed
	Commit   string `json:"commit,omitempty"`
	What     string `json:"what"`
	Line     string `json:"line,omitempty"`
}

type findingsFile struct {
	Findings []Finding `json:"findings"`
}

var knownCache *findingsFile

// VerifDir is the directory holding known_findings.json, golden/, etc.
func VerifDir() string {
	if d := os.Getenv("VERIF_DIR"); d != "" {
		return d
	}
	return "/verif"
}

// Known loads known_findings.json (committed; never written at run time).
func Known() []Finding {
	if knownCache == nil {
		knownCache = &findingsFile{}
		b, err := os.ReadFile(filepath.Join(VerifDir(), "known_findings.json"))
		if err == nil {
			_ = json.Unmarshal(b, knownCache)
		}
	}
	return knownCache.Findings
}

func openFinding(id string) bool {
	for _, f := range Known() {
		if f.ID == id && f.Status == "open" {
			return true
		}
	}
	return false
}

// ActiveGuards derives generator guards from the open known findings.
func ActiveGuards() work.Guards {
	return work.Guards{
		NoMoveEdited:         openFinding("F1"),
		NoMoveIntoDescendant: openFinding("F2"),
		NoReaderAcrossFault:  openFinding("F6"),
	}
}

// MatchKnown returns the id of the open known finding that the minimised case
// and its violation are an instance of, or "".
func MatchKnown(c *Case, v *work.Violation) string {
	for _, f := range Known() {
		if f.Status != "open" || f.Property != v.Prop {
			continue
		}
		if m := matchers[f.ID]; m != nil && m(c, v) {
			return f.ID
		}
	}
	return ""
}

var matchers = map[string]func(c *Case, v *work.Violation) bool{
	// F2: the only way to get this class is a MoveBucket whose destination
	// path has the moved bucket's path as a proper prefix.
	// F6: the injected fault is "the final fdatasync of a commit (after its
	// meta write) fails" while a read transaction older than that commit is open.
	"F6": func(c *Case, v *work.Violation) bool {
		return v.Prop == "C08" && strings.HasPrefix(v.Class, "final-sync-failed-with-reader-open")
	},
	"F2": func(c *Case, v *work.Violation) bool { return v.Prop == "C04" && v.Class == "move-into-descendant" },
}

func hasPrefixPath(p, prefix []string) bool {
	if len(p) < len(prefix) {
		return false
	}
	return strings.Join(p[:len(prefix)], "\x00") == strings.Join(prefix, "\x00")
}
