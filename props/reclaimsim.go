package props

import (
	"encoding/json"
	"errors"
	"fmt"
	"os"
	"path/filepath"

	bolt "go.etcd.io/bbolt"
	berrors "go.etcd.io/bbolt/errors"
	"go.etcd.io/bbolt/xverif/dec"
	"go.etcd.io/bbolt/xverif/sim"
	"go.etcd.io/bbolt/xverif/work"
)

// reclaimsim decides C10: overwrite workloads with explicit reader
// open/close patterns between write transactions; the amount of withheld
// (pending) space is bounded by what the independent decoder says the last
// commit released, and a steady workload does not grow the file.
type reclaimsim struct{}

func (reclaimsim) Name() string { return "reclaimsim" }

type reclaimExtra struct {
	Pattern string `json:"pattern"` // none | long | staggered | burst
	Txs     int    `json:"txs"`
	Keys    int    `json:"keys"`
	PerTx   int    `json:"per_tx"`
	VLen    int    `json:"vlen"`
	Reopen  int    `json:"reopen"` // reopen every n transactions (0: never)
	Steady  bool   `json:"steady"` // single-page nodes only: the growth bound applies
}

func (rs reclaimsim) Gen(prop, tier string, ts *sim.Tapes) *Case {
	cfg := work.GenConfig(ts.Get("cfg"))
	cfg.StrictMode, cfg.Mlock = false, false
	cfg.InitialMmapSize = 64 << 20 // readers are held across writers on one task
	cfg.NoStatistics = ts.Get("knobs").Chance(1, 4) // the statistics then read zero: the file-growth oracles decide
	t := ts.Get("reclaim")
	ex := reclaimExtra{Pattern: []string{"none", "long", "staggered", "burst"}[t.Pick(3, 2, 3, 2)]}
	ex.Txs = 20 + t.Intn(60)
	if tier == "thorough" {
		ex.Txs = 50 + t.Intn(150)
	}
	ex.Keys = 20 + t.Intn(400)
	ex.PerTx = 1 + t.Intn(30)
	ex.VLen = []int{8, 40, 200}[t.Pick(3, 2, 1)]
	ex.Steady = t.Chance(1, 2)
	if ex.Steady {
		ex.Pattern = "none"
		if ex.Txs < 50 {
			ex.Txs = 50 + t.Intn(30)
		}
		ex.VLen = 8 + t.Intn(32)
		if cfg.PageSize < 4096 {
			cfg.PageSize = 4096
		}
	}
	if t.Chance(1, 4) {
		ex.Reopen = 5 + t.Intn(20)
	}
	c := &Case{Prop: prop, Engine: rs.Name(), Tier: tier, Seed: ts.Seed, Run: ts.Run, Prog: &work.Program{Cfg: cfg}, Tapes: map[string][]uint64{}}
	c.Extra, _ = json.Marshal(ex)
	return c
}

func (rs reclaimsim) Run(c *Case, dir string) *Outcome {
	out := &Outcome{}
	var ex reclaimExtra
	_ = json.Unmarshal(c.Extra, &ex)
	path := filepath.Join(dir, "db")
	os.Remove(path)
	defer os.Remove(path)
	cfg := c.Prog.Cfg
	ps := cfg.PageSize
	t := sim.NewTape(c.Seed, c.Run, "reclaim-ops")
	order := sim.NewTape(c.Seed, c.Run, "order")
	e := work.NewExec(path, cfg)
	var viol []*work.Violation
	fail := func(class, f string, a ...any) {
		if len(viol) < 10 {
			viol = append(viol, &work.Violation{Prop: "C10", Class: class, Msg: fmt.Sprintf(f, a...)})
		}
	}
	// page sets per version, from the independent decoder
	used := map[int]map[uint64]bool{}
	readers := map[int]*bolt.Tx{} // reader slot -> tx
	readerID := map[int]int{}
	disk := sim.NewDisk(path)
	disk.PageSize = ps
	disk.Veto = func(op string, afterMeta bool) bool {
		// a failing final sync may leave the transaction present (C08's exception, listed finding F6 with readers);
		// a failing (un)map leaves the DB unusable: neither belongs to this property
		return (op == "fdatasync" && afterMeta) || op == "mmap" || op == "munmap"
	}
	w := &sim.World{MapOrder: cfg.MapOrder, Order: order, Disk: disk}
	w.OnWrite = func(db *bolt.DB, off int64, n int) {
		if db.Path() != path {
			return
		}
		first, last := uint64(off)/uint64(ps), uint64(off+int64(n)-1)/uint64(ps)
		for slot, id := range readerID {
			for pg := first; pg <= last; pg++ {
				if used[id][pg] {
					fail("reader-page-reused", "pwrite to page %d which the version of open reader %d (txid %d) references", pg, slot, id)
					return
				}
			}
		}
	}
	w.Install()
	defer sim.Uninstall()
	finished := false
	defer func() {
		if finished && e.DB != nil {
			for _, r := range readers {
				_ = r.Rollback()
			}
			_ = e.DB.Close()
		}
	}()
	if err := e.Open(e.DefaultOpts()); err != nil {
		out.HarnessErr = err.Error()
		return out
	}
	decode := func() *dec.Result {
		data, err := os.ReadFile(path)
		if err != nil {
			return nil
		}
		im, err := dec.Load(data)
		if err != nil {
			return nil
		}
		wi, ok := im.Winner()
		if !ok {
			return nil
		}
		return im.Decode(wi)
	}
	if err := e.DB.Update(func(tx *bolt.Tx) error {
		b, err := tx.CreateBucket([]byte("b"))
		if err != nil {
			return err
		}
		for i := 0; i < ex.Keys; i++ {
			if err := b.Put([]byte(fmt.Sprintf("key-%05d", i)), work.MkVal(ex.VLen, uint32(i))); err != nil {
				return err
			}
		}
		// nested paged buckets: deleting one frees its pages before commit
		n, err := tx.CreateBucket([]byte("n"))
		if err != nil {
			return err
		}
		for j := 0; j < 4; j++ {
			cb, err := n.CreateBucket([]byte(fmt.Sprintf("child-%d", j)))
			if err != nil {
				return err
			}
			for i := 0; i < 40; i++ {
				if err := cb.Put([]byte(fmt.Sprintf("ck-%04d", i)), work.MkVal(ps/8, uint32(j*100+i))); err != nil {
					return err
				}
			}
		}
		return nil
	}); err != nil {
		out.HarnessErr = err.Error()
		return out
	}
	prev := decode()
	if prev == nil {
		out.HarnessErr = "cannot decode after the first commit"
		return out
	}
	used[int(prev.Meta.Txid)] = prev.UsedSet()
	maxUsed, maxReleased, maxFL := len(prev.UsedSet()), 0, len(prev.FreelistPages)
	multiPageSeen := prev.Shape.OverflowPages > 0 || len(prev.FreelistPages) > 1
	readersClosedAt := -1 // tx index at which the last reader closed
	tag := uint32(100000)
	closeReader := func(slot int) {
		if r := readers[slot]; r != nil {
			_ = r.Rollback()
			delete(readers, slot)
			delete(readerID, slot)
			out.probe("reader-closed", 1)
		}
	}
	for i := 0; i < ex.Txs && len(viol) == 0; i++ {
		Tick()
		// reader pattern between write transactions
		switch ex.Pattern {
		case "long":
			if i == 2 {
				rs.openReader(e, readers, readerID, 0, out)
			}
			if i == ex.Txs*2/3 {
				closeReader(0)
				readersClosedAt = i
			}
		case "staggered":
			if i%5 == 1 {
				rs.openReader(e, readers, readerID, i%3, out)
			}
			if i%7 == 4 {
				for s := 0; s < 3; s++ {
					if t.Chance(1, 2) {
						closeReader(s)
					}
				}
				if len(readers) == 0 {
					readersClosedAt = i
				}
			}
		case "burst":
			if i%11 == 3 {
				for s := 0; s < 3; s++ {
					rs.openReader(e, readers, readerID, s, out)
				}
			}
			if i%11 == 8 {
				for s := 0; s < 3; s++ {
					closeReader(s)
				}
				readersClosedAt = i
			}
		}
		if ex.Reopen > 0 && i > 0 && i%ex.Reopen == 0 && len(readers) == 0 {
			if err := e.DB.Close(); err != nil {
				fail("close-error", "%v", err)
				break
			}
			e.DB = nil
			if err := e.Open(e.Opts); err != nil {
				fail("reopen-error", "%v", err)
				break
			}
			out.probe("reopen", 1)
			// a reopen may have flushed the freelist: re-baseline
			if p := decode(); p != nil {
				prev = p
				used[int(p.Meta.Txid)] = p.UsedSet()
			}
		}
		if !ex.Steady && t.Chance(1, 6) {
			// a write transaction that deletes a nested paged bucket and is then
			// abandoned (user Rollback / Update returning an error): nothing it
			// freed may stay withheld or become reusable
			victim := []byte(fmt.Sprintf("child-%d", t.Intn(4)))
			if t.Chance(1, 2) {
				if tx, berr := e.DB.Begin(true); berr == nil {
					if nb := tx.Bucket([]byte("n")); nb != nil {
						_ = nb.DeleteBucket(victim)
					}
					_ = tx.Rollback()
				}
			} else {
				_ = e.DB.Update(func(tx *bolt.Tx) error {
					if nb := tx.Bucket([]byte("n")); nb != nil {
						_ = nb.DeleteBucket(victim)
					}
					return work.ErrBody
				})
			}
			out.probe("rolled-back-delete-bucket", 1)
		}
		if !ex.Steady && t.Chance(1, 6) {
			// a write transaction that modifies the tree (and sometimes deletes a nested paged bucket) and then
			// fails *physically*: its Update body panics, or an I/O call of its commit fails. Afterwards no page of
			// an open reader's version may have become reusable and nothing may stay withheld for longer.
			how := t.Pick(2, 4, 1)
			st0 := e.DB.Stats()
			if how == 2 {
				// a transaction that first uses up free pages and then needs the file to grow while a size limit
				// forbids it: the failure comes out of the spill phase, before anything was written
				if fi, serr := os.Stat(path); serr == nil {
					e.DB.MaxSize = int(fi.Size())
				}
			}
			if how == 1 {
				disk.Fired, disk.Calls = "", 0
				disk.Plan = &sim.FaultPlan{K: t.Intn(8), Kind: []string{"eio", "short", "enospc", "short72"}[t.Intn(4)]}
				disk.Arm(true)
			}
			delNested := t.Chance(1, 3)
			nput := 1 + t.Intn(ex.PerTx)
			var ferr error
			func() {
				defer func() {
					if r := recover(); r != nil {
						if r != work.PanicBody {
							panic(r)
						}
						ferr = work.ErrBody
					}
				}()
				ferr = e.DB.Update(func(tx *bolt.Tx) error {
					b := tx.Bucket([]byte("b"))
					for j := 0; j < nput; j++ {
						k := []byte(fmt.Sprintf("key-%05d", t.Intn(ex.Keys)))
						if err := b.Put(k, work.MkVal(ex.VLen, 7000000+uint32(j))); err != nil {
							return err
						}
					}
					if delNested {
						if nb := tx.Bucket([]byte("n")); nb != nil {
							_ = nb.DeleteBucket([]byte(fmt.Sprintf("child-%d", t.Intn(4))))
						}
					}
					if how == 2 {
						for j := 0; j < st0.FreePageN+8; j++ {
							if err := b.Put([]byte(fmt.Sprintf("grow-%05d", j)), work.MkVal(ps-100, 7100000+uint32(j))); err != nil {
								return err
							}
						}
					}
					if how == 0 {
						panic(work.PanicBody)
					}
					return nil
				})
			}()
			disk.Arm(false)
			disk.Plan = nil
			e.DB.MaxSize = 0
			failedPhysically := how == 0 || (how == 1 && disk.Fired != "") || (how == 2 && ferr != nil)
			if failedPhysically {
				// whatever the failed transaction took from the free list is back: no space is lost by a failure
				if st1 := e.DB.Stats(); st1.FreePageN+st1.PendingPageN != st0.FreePageN+st0.PendingPageN {
					fail("space-lost-by-failed-transaction", "a write transaction failed (%v) and %d free + %d pending pages became %d free + %d pending: pages taken from the free list by the failed transaction were not given back", ferr, st0.FreePageN, st0.PendingPageN, st1.FreePageN, st1.PendingPageN)
				}
			}
			switch {
			case how == 2 && ferr != nil:
				out.fault("size-limit-failure-in-spill", 1)
				if !errors.Is(ferr, berrors.ErrMaxSizeReached) {
					fail("update-error", "%v", ferr)
				}
			case how == 0:
				out.fault("update-body-panics(physical rollback)", 1)
			case disk.Fired != "":
				out.fault("commit-io-failure:"+disk.FiredOp, 1)
				if ferr == nil {
					fail("swallowed-error", "%s but Update returned nil", disk.Fired)
				}
			default:
				// the plan's call index was not reached: an ordinary commit happened
				if ferr != nil {
					fail("update-error", "%v", ferr)
					break
				}
				if p := decode(); p != nil && p.Fatal == "" {
					prev = p
					used[int(p.Meta.Txid)] = p.UsedSet()
				}
			}
			if len(readers) > 0 && failedPhysically {
				out.fault("physical-rollback-with-readers-open", 1)
			}
			disk.Fired = ""
		}
		noReaderDuringTx := len(readers) == 0
		err := e.DB.Update(func(tx *bolt.Tx) error {
			b := tx.Bucket([]byte("b"))
			for j := 0; j < ex.PerTx; j++ {
				tag++
				k := []byte(fmt.Sprintf("key-%05d", t.Intn(ex.Keys)))
				if ex.Steady || t.Chance(4, 5) {
					if err := b.Put(k, work.MkVal(ex.VLen, tag)); err != nil {
						return err
					}
				} else if t.Chance(1, 2) {
					if err := b.Delete(k); err != nil {
						return err
					}
				} else {
					if err := b.Put(k, work.MkVal(ex.VLen*(1+t.Intn(3)), tag)); err != nil {
						return err
					}
				}
			}
			return nil
		})
		if err != nil {
			fail("update-error", "%v", err)
			break
		}
		out.probe("commit", 1)
		cur := decode()
		if cur == nil || cur.Fatal != "" {
			fail("undecodable", "file not decodable after commit %d", i)
			break
		}
		cu := cur.UsedSet()
		used[int(cur.Meta.Txid)] = cu
		released := 0
		for pg := range prev.UsedSet() {
			if !cu[pg] {
				released++
			}
		}
		if released > maxReleased {
			maxReleased = released
		}
		if len(cu) > maxUsed {
			maxUsed = len(cu)
		}
		if len(cur.FreelistPages) > maxFL {
			maxFL = len(cur.FreelistPages)
		}
		if cur.Shape.OverflowPages > 0 || len(cur.FreelistPages) > 1 {
			multiPageSeen = true
		}
		st := e.DB.Stats()
		// with no reader open during the transaction, at most the pages this
		// very commit released may still be withheld
		if noReaderDuringTx && len(readers) == 0 && (readersClosedAt < 0 || i > readersClosedAt) {
			out.probe("pending-bound-checked", 1)
			if st.PendingPageN > released {
				fail("pending-not-released", "after commit %d (txid %d) with no reader open %d pages are still pending although this commit released only %d (decoder: pages of the previous version that the new one no longer uses)", i, cur.Meta.Txid, st.PendingPageN, released)
			}
			if readersClosedAt >= 0 && i == readersClosedAt+1 {
				out.probe("pending-bound-checked-right-after-readers-closed", 1)
			}
		} else if len(readers) > 0 {
			out.probe("commit-with-readers-open", 1)
		}
		prev = cur
	}
	// tail phase: every reader is closed, then a run of small overwrite transactions. Whatever was withheld for
	// the readers is reusable by the next writer at the latest, so the file stops growing: this oracle does not
	// depend on the statistics (which read zero under NoStatistics).
	if len(viol) == 0 && !multiPageSeen && ex.VLen <= 40 {
		for sl := range readers {
			closeReader(sl)
		}
		var h3 uint64
		tailOK := true
		for k := 0; k < 16 && tailOK; k++ {
			Tick()
			err := e.DB.Update(func(tx *bolt.Tx) error {
				b := tx.Bucket([]byte("b"))
				for j := 0; j < ex.PerTx; j++ {
					tag++
					if err := b.Put([]byte(fmt.Sprintf("key-%05d", t.Intn(ex.Keys))), work.MkVal(ex.VLen, tag)); err != nil {
						return err
					}
				}
				return nil
			})
			if err != nil {
				fail("update-error", "%v", err)
				tailOK = false
				break
			}
			cur := decode()
			if cur == nil || cur.Fatal != "" {
				tailOK = false
				break
			}
			if cur.Shape.OverflowPages > 0 || len(cur.FreelistPages) > 1 {
				tailOK = false // a multi-page allocation appeared: fragmentation may legitimately force growth
				break
			}
			rel := 0
			cu := cur.UsedSet()
			for pg := range prev.UsedSet() {
				if !cu[pg] {
					rel++
				}
			}
			if rel > maxReleased {
				maxReleased = rel
			}
			prev = cur
			if k == 3 {
				h3 = cur.Meta.Pgid
			}
		}
		if tailOK && h3 > 0 {
			out.probe("tail-growth-bound-checked", 1)
			if bound := h3 + uint64(2*maxReleased+2*maxFL+8); prev.Meta.Pgid > bound {
				fail("file-grows-after-readers-closed", "all readers closed, then 16 small overwrite transactions: the high-water mark went from %d (after the 4th) to %d (after the 16th) although a transaction releases at most %d pages: freed space is not being reused (bound %d)", h3, prev.Meta.Pgid, maxReleased, bound)
			}
		}
	}
	// steady overwrite workload: the file must not keep growing
	if len(viol) == 0 && ex.Steady && !multiPageSeen && ex.Txs >= 50 {
		bound := maxUsed + 2*maxReleased + 2*maxFL + 8
		out.probe("growth-bound-checked", 1)
		if int(prev.Meta.Pgid) > bound {
			fail("file-grows-unbounded", "after %d steady overwrite transactions without readers the high-water mark is %d pages; live pages never exceeded %d, a transaction released at most %d: bound %d", ex.Txs, prev.Meta.Pgid, maxUsed, maxReleased, bound)
		}
	}
	for s := range readers {
		closeReader(s)
	}
	if e.DB != nil {
		if err := e.DB.Close(); err != nil {
			fail("close-error", "%v", err)
		}
		e.DB = nil
	}
	finished = true
	out.Viol = viol
	out.Evals = 1
	out.Distinct = append(out.Distinct, mixHash(uint64(prev.Meta.Pgid), uint64(maxUsed), uint64(maxReleased), hashStr(ex.Pattern), uint64(ex.Txs), uint64(ex.Keys)))
	out.Sample = map[string]any{"run": c.Run, "cfg": cfg, "workload": ex, "final_hwm_pages": prev.Meta.Pgid, "max_live_pages": maxUsed, "max_released_per_tx": maxReleased}
	return out
}

func (rs reclaimsim) openReader(e *work.Exec, readers map[int]*bolt.Tx, ids map[int]int, slot int, out *Outcome) {
	if readers[slot] != nil {
		return
	}
	tx, err := e.DB.Begin(false)
	if err != nil {
		return
	}
	readers[slot] = tx
	ids[slot] = tx.ID()
	out.probe("reader-opened", 1)
}

func (rs reclaimsim) Shrinks(c *Case) []*Case {
	var ex reclaimExtra
	_ = json.Unmarshal(c.Extra, &ex)
	var out []*Case
	emit := func(e2 reclaimExtra) {
		d := c.Clone()
		d.Extra, _ = json.Marshal(e2)
		out = append(out, d)
	}
	if !ex.Steady {
		for _, n := range []int{ex.Txs / 2, ex.Txs - 1} {
			if n >= 2 {
				e2 := ex
				e2.Txs = n
				emit(e2)
			}
		}
	}
	if ex.Keys > 20 {
		e2 := ex
		e2.Keys = ex.Keys / 2
		emit(e2)
	}
	if ex.PerTx > 1 {
		e2 := ex
		e2.PerTx = ex.PerTx / 2
		emit(e2)
	}
	if ex.Reopen > 0 {
		e2 := ex
		e2.Reopen = 0
		emit(e2)
	}
	if ex.Pattern != "none" {
		e2 := ex
		e2.Pattern = "none"
		emit(e2)
	}
	return out
}

func init() {
	register(&Info{Prop: "C10", Engine: reclaimsim{}, Level: "exploration", QuickS: 45, ThoroughS: 600,
		RealStub: "real: all of bbolt (tag verif), real file + mmap; injected: I/O errors in some commits (through the I/O hooks); observed: every pwrite (pages of open readers' versions must not be written); oracle inputs come from the independent decoder (page sets per version); simulated: map iteration order / span choice",
		Rule:     "one evaluation = one seeded overwrite workload of 20-200 write transactions on one bucket with a reader pattern between transactions (none / one long-lived / staggered open+close / bursts closing at once), optional reopenings, abandoned transactions (user Rollback / failing body) and physically rolled-back ones (a panicking Update body; an injected I/O failure - EIO, short write, ENOSPC - at a tape-chosen I/O call of the commit; a size-limit failure in the spill phase after free pages were used up), after each of which free + pending space must be what it was before, both backends, freelist-sync on/off. After every commit made with no reader open, Stats().PendingPageN must not exceed the number of pages of the previous version that the new version no longer uses (computed by dec/); the same bound must hold from the first commit after the last reader closed; no pwrite may touch a page of an open reader's version; after the workload every reader is closed and 16 small overwrite transactions follow, during which (single-page nodes only) the high-water mark may rise by at most 2 x largest release + 2 x freelist pages + 8 between the 4th and the 16th - an oracle that does not read the statistics, which are switched off (NoStatistics) in a quarter of the runs; for steady single-page-node workloads of >= 50 transactions the high-water mark must stay <= max live pages + 2 x largest per-transaction release + 2 x freelist pages + 8. distinct = distinct (final hwm, live pages, released, pattern, sizes)",
		Assume:   []string{"single task: reader open/close events happen between write transactions (the concurrent form is exercised by the C02 arm)", "the growth bound is only asserted when no multi-page node or multi-page freelist ever appeared (fragmentation could otherwise legitimately force growth)"}})
}
