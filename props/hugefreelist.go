package props

import (
	"fmt"
	"os"
	"path/filepath"

	bolt "go.etcd.io/bbolt"
	"go.etcd.io/bbolt/xverif/dec"
	"go.etcd.io/bbolt/xverif/sim"
	"go.etcd.io/bbolt/xverif/work"
)

// hugeFreelist is the in-system form of the ">= 0xFFFF entries" convention of
// the freelist page (C12; C09 decides the allocator in isolation): the real
// database frees more than 65535 pages, writes that list, and everything that
// reads it - the independent decoder, a reopen with either backend, the
// integrity check, the statistics - must agree on it; then the list shrinks
// below the threshold again.
func hugeFreelist(c *Case, dir string, out *Outcome) {
	path := filepath.Join(dir, "hugefl")
	os.Remove(path)
	defer os.Remove(path)
	t := sim.NewTape(c.Seed, c.Run, "hugefreelist")
	fail := func(class, f string, a ...any) {
		if len(out.Viol) < 3 {
			out.Viol = append(out.Viol, &work.Violation{Prop: "C12", Class: class, Msg: fmt.Sprintf(f, a...)})
		}
	}
	const ps = 1024
	backends := []bolt.FreelistType{bolt.FreelistArrayType, bolt.FreelistMapType}
	first := backends[t.Intn(2)]
	opts := func(ft bolt.FreelistType) *bolt.Options {
		return &bolt.Options{PageSize: ps, NoSync: true, FreelistType: ft, InitialMmapSize: 256 << 20}
	}
	db, err := bolt.Open(path, 0600, opts(first))
	if err != nil {
		out.HarnessErr = err.Error()
		return
	}
	closed := false
	defer func() {
		if !closed {
			_ = db.Close()
		}
	}()
	n := 0xFFFF + 1 + t.Intn(700)
	val := make([]byte, ps-120)
	if err := db.Update(func(tx *bolt.Tx) error {
		keep, err := tx.CreateBucket([]byte("keep"))
		if err != nil {
			return err
		}
		for i := 0; i < 50; i++ {
			if err := keep.Put([]byte(fmt.Sprintf("k%03d", i)), []byte(fmt.Sprintf("v%03d", i))); err != nil {
				return err
			}
		}
		b, err := tx.CreateBucket([]byte("bulk"))
		if err != nil {
			return err
		}
		for i := 0; i < n; i++ {
			if err := b.Put([]byte(fmt.Sprintf("b%07d", i)), val); err != nil {
				return err
			}
		}
		return nil
	}); err != nil {
		out.HarnessErr = err.Error()
		return
	}
	Tick()
	if err := db.Update(func(tx *bolt.Tx) error { return tx.DeleteBucket([]byte("bulk")) }); err != nil {
		fail("update-error", "DeleteBucket: %v", err)
		return
	}
	// one more commit: the pages released above become free and the list is written with them
	step := func(i int) bool {
		Tick()
		if err := db.Update(func(tx *bolt.Tx) error {
			return tx.Bucket([]byte("keep")).Put([]byte(fmt.Sprintf("extra%03d", i)), make([]byte, 300+i))
		}); err != nil {
			fail("update-error", "%v", err)
			return false
		}
		return true
	}
	verify := func(when string) (free int) {
		Tick()
		data, err := os.ReadFile(path)
		if err != nil {
			out.HarnessErr = err.Error()
			return 0
		}
		im, err := dec.Load(data)
		if err != nil {
			fail("undecodable", "%s: %v", when, err)
			return 0
		}
		wi, ok := im.Winner()
		if !ok {
			fail("no-valid-meta", "%s", when)
			return 0
		}
		res := im.Decode(wi)
		if res.Fatal != "" || !res.Clean() {
			fail("huge-freelist-accounting", "%s: the independent decoder (published layout incl. the 0xFFFF count convention) does not account for every page: %s", when, res.ProblemString())
			return 0
		}
		free = len(res.FreeSet())
		if e := res.Root.M["keep"]; e == nil || e.B == nil || string(e.B.M["k007"].Val) != "v007" {
			fail("decoder-content", "%s: content of bucket keep not decodable", when)
		}
		st := db.Stats()
		if st.FreePageN+st.PendingPageN != free {
			fail("huge-freelist-stats", "%s: Stats free %d + pending %d != %d free ids on the freelist page", when, st.FreePageN, st.PendingPageN, free)
		}
		_ = db.View(func(tx *bolt.Tx) error {
			for cerr := range tx.Check() {
				fail("huge-freelist-check", "%s: Tx.Check: %v", when, cerr)
				break
			}
			return nil
		})
		return free
	}
	if !step(0) {
		return
	}
	free := verify("after the list grew beyond 65535 entries")
	if len(out.Viol) > 0 {
		return
	}
	if free >= 0xFFFF {
		out.probe("freelist-count>=0xFFFF-written", 1)
	}
	// reopen with the other backend: the list must be read back whole
	if err := db.Close(); err != nil {
		fail("close-error", "%v", err)
		closed = true
		return
	}
	other := backends[0]
	if first == backends[0] {
		other = backends[1]
	}
	db, err = bolt.Open(path, 0600, opts(other))
	if err != nil {
		closed = true
		fail("reopen-error", "Open of a file whose freelist has %d entries: %v", free, err)
		return
	}
	if free2 := verify("after reopening with the other backend"); len(out.Viol) == 0 && free2 != free {
		fail("huge-freelist-stats", "reopen changed the number of free pages: %d -> %d", free, free2)
	}
	// consume part of the list again (the count drops below the threshold) and verify once more
	if len(out.Viol) == 0 {
		if err := db.Update(func(tx *bolt.Tx) error {
			b, err := tx.CreateBucket([]byte("refill"))
			if err != nil {
				return err
			}
			for i := 0; i < 2000+t.Intn(2000); i++ {
				if err := b.Put([]byte(fmt.Sprintf("r%07d", i)), val); err != nil {
					return err
				}
			}
			return nil
		}); err != nil {
			fail("update-error", "%v", err)
		} else if step(1) {
			if f3 := verify("after part of the list was reused"); f3 < 0xFFFF {
				out.probe("freelist-count-back-below-0xFFFF", 1)
			}
		}
	}
	out.Evals = 1
	out.probe("hugefreelist-runs", 1)
	out.Distinct = append(out.Distinct, mixHash(uint64(n), uint64(free), c.Run))
}
