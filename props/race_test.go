package props

import (
	"encoding/json"
	"fmt"
	"io"
	"os"
	"path/filepath"
	"sync"
	"testing"
	"time"

	bolt "go.etcd.io/bbolt"
	"go.etcd.io/bbolt/xverif/model"
	"go.etcd.io/bbolt/xverif/sim"
	"go.etcd.io/bbolt/xverif/work"
)

// TestRaceArm is the free-running arm of C03: the same seeded client programs
// as the scheduler arm, executed by real goroutines without the scheduler,
// in a binary built with -race. The token scheduler orders everything, so the
// race detector is blind inside the simulation; here it is not. No oracle is
// evaluated (the harness keeps all its state goroutine-local): the only
// verdict is the race detector's. This is ordinary dynamic race detection
// with seeded workloads, not simulation; replay is best-effort.
func TestRaceArm(t *testing.T) {
	specPath := os.Getenv("VERIF_RACE_SPEC")
	if specPath == "" {
		t.Skip("race arm entry point; run through vcheck")
	}
	var sp Spec
	b, err := os.ReadFile(specPath)
	if err == nil {
		err = json.Unmarshal(b, &sp)
	}
	if err != nil {
		fmt.Println("HARNESS-ERROR bad spec:", err)
		os.Exit(2)
	}
	sim.Uninstall()
	dir := filepath.Join(sp.OutDir, fmt.Sprintf("r%d", sp.ID))
	_ = os.MkdirAll(dir, 0755)
	defer os.RemoveAll(dir)
	deadline := time.UnixMilli(sp.DeadlineMS)
	runs := 0
	journal := filepath.Join(sp.OutDir, fmt.Sprintf("race-journal-%d", sp.ID))
	for run := sp.First; ; run += sp.Stride {
		if sp.MaxRuns > 0 && runs >= sp.MaxRuns {
			break
		}
		if runs > 0 && time.Now().After(deadline) {
			break
		}
		_ = os.WriteFile(journal, []byte(fmt.Sprint(run)), 0644)
		raceRun(sp.Seed, run, dir)
		runs++
	}
	_ = os.Remove(journal)
	_ = os.WriteFile(filepath.Join(sp.OutDir, fmt.Sprintf("race-result-%d.json", sp.ID)), []byte(fmt.Sprintf(`{"runs":%d}`, runs)), 0644)
}

func raceRun(seed, run uint64, dir string) {
	ts := sim.NewTapes(seed, run)
	cfg := work.GenConfig(ts.Get("cfg"))
	cfg.StrictMode, cfg.Mlock = false, false
	cfg.InitialMmapSize = 0
	prelude, clients := genClients(ts, cfg, "C03", "quick")
	path := filepath.Join(dir, fmt.Sprintf("race-%d", run))
	os.Remove(path)
	defer os.Remove(path)
	pe := work.NewExec(path, cfg)
	if err := pe.Open(pe.DefaultOpts()); err != nil {
		return
	}
	for i := range prelude.Steps {
		if prelude.Steps[i].Kind == "tx" {
			pe.RunStep(i, &prelude.Steps[i])
		}
	}
	db := pe.DB
	db.MaxBatchDelay = time.Millisecond
	hasClose := false
	for _, steps := range clients {
		for _, st := range steps {
			if st.Kind == "close" {
				hasClose = true
			}
		}
	}
	var wg sync.WaitGroup
	for _, steps := range clients {
		steps := steps
		wg.Add(1)
		go func() {
			defer wg.Done()
			e := work.NewExec("", cfg) // goroutine-local; results are ignored
			for si := range steps {
				st := &steps[si]
				switch st.Kind {
				case "stats":
					_ = db.Stats()
					// the other database-level entry points that may be called from any goroutine
					// (only in workloads without a Close task: an accessor or Sync racing with Close is use of a database
					// that is being closed, which the documentation does not promise to be safe - see DESIGN, false alarms)
					if !hasClose {
						_ = db.String()
						_ = db.IsReadOnly()
						if si%2 == 1 {
							_ = db.Sync()
						}
					}
				case "close":
					_ = db.Close()
				case "hold":
					if tx, err := db.Begin(false); err == nil {
						_ = e.Dump(tx)
						switch (si + st.Reader) % 4 {
						case 1:
							_, _ = tx.WriteTo(io.Discard) // hot backup while writers commit
						// (Tx.Check on a read-only transaction is documented as not safe while write transactions
						// run - it reads the live free list - so it is not part of this workload)
						case 3:
							_ = tx.Stats()
							_ = tx.Size()
							// DB.Info hands out the raw mapping address ("use carefully, or not at all"): it is only
							// meaningful while a transaction pins the mapping, so that is the only way it is called here
							_ = db.Info()
						}
						_ = tx.Rollback()
					}
				case "tx":
					raceTx(db, e, st.Tx)
				}
				e.Viol = nil
			}
		}()
	}
	done := make(chan struct{})
	go func() { wg.Wait(); close(done) }()
	select {
	case <-done:
	case <-time.After(20 * time.Second):
		return // leave it; a deadlock is the scheduler arm's business
	}
	// (Close itself may block for ever on a tree that leaks a lock: bounded as well)
	closed := make(chan struct{})
	go func() { _ = db.Close(); close(closed) }()
	select {
	case <-closed:
	case <-time.After(10 * time.Second):
	}
}

func raceTx(db *bolt.DB, e *work.Exec, txn *work.Txn) {
	defer func() { _ = recover() }()
	scratch := model.NewBucket()
	body := func(tx *bolt.Tx, writable bool) {
		for _, op := range txn.Ops {
			// run the call; the scratch model is goroutine-local and its verdicts are dropped
			func() {
				defer func() { _ = recover() }()
				e.ApplyOpNoModel(tx, op, writable)
			}()
		}
		_ = scratch
	}
	switch txn.Mode {
	case "update":
		_ = db.Update(func(tx *bolt.Tx) error {
			body(tx, true)
			if txn.End == "error" {
				return work.ErrBody
			}
			if txn.End == "panic" {
				panic(work.PanicBody)
			}
			return nil
		})
	case "rw":
		// half of them through Batch so that its goroutines and timer take part
		if len(txn.Ops)%2 == 0 && txn.End == "commit" {
			_ = db.Batch(func(tx *bolt.Tx) error { body(tx, true); return nil })
			return
		}
		tx, err := db.Begin(true)
		if err != nil {
			return
		}
		body(tx, true)
		if txn.End == "commit" {
			_ = tx.Commit()
		} else {
			_ = tx.Rollback()
		}
	default:
		_ = db.View(func(tx *bolt.Tx) error { body(tx, false); return nil })
	}
}
