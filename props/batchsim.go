package props

import (
	"encoding/binary"
	"encoding/json"
	"errors"
	"fmt"
	"os"
	"path/filepath"
	"strings"
	"testing"
	"testing/synctest"
	"time"

	bolt "go.etcd.io/bbolt"
	berrors "go.etcd.io/bbolt/errors"
	"go.etcd.io/bbolt/xverif/dec"
	"go.etcd.io/bbolt/xverif/sim"
	"go.etcd.io/bbolt/xverif/work"
)

// batchsim: several caller tasks invoke DB.Batch concurrently under the token
// scheduler and the fake clock (C16).
type batchsim struct{}

func (batchsim) Name() string { return "batchsim" }

// batchCall is one Batch invocation of one caller.
type batchCall struct {
	Plan   string `json:"plan"`   // ok | err1 | panic1 | err2 | errall | panicall
	Pauses int    `json:"pauses"` // yields before the call
	Inner  int    `json:"inner"`  // yields inside fn
}

type batchExtra struct {
	MaxBatchSize  int           `json:"max_batch_size"`
	MaxBatchDelay int           `json:"max_batch_delay_us"`
	Callers       [][]batchCall `json:"callers"`
	Updaters      int           `json:"updaters"` // plain Update callers competing for the writer lock
	// I/O faults injected while the callers run (armed-call indices): a batch whose commit fails must
	// report the failure to every caller in it and commit none of their effects
	Faults []sim.FaultPlan `json:"faults,omitempty"`
	// C03 arm: a task calls DB.Close after CloseAfter yields while Batch calls are queued, running or arriving
	Closer     bool `json:"closer,omitempty"`
	CloseAfter int  `json:"close_after,omitempty"`
}

// injectedErr reports whether err stems from an injected I/O fault (bbolt wraps some of them with %s).
func injectedErr(err error) bool {
	return err != nil && (sim.IsInjected(err) || strings.Contains(err.Error(), "xverif injected"))
}

func (bs batchsim) Gen(prop, tier string, ts *sim.Tapes) *Case {
	cfg := work.GenConfig(ts.Get("cfg"))
	cfg.StrictMode, cfg.Mlock = false, false
	t := ts.Get("batch")
	ex := batchExtra{}
	ex.MaxBatchSize = []int{3, 0, 1, 2, 1000}[t.Pick(3, 1, 1, 2, 2)]
	ex.MaxBatchDelay = []int{10000, 0, 1000, 100000}[t.Pick(3, 1, 2, 1)]
	n := 1 + t.Intn(6)
	if tier == "thorough" {
		n = 1 + t.Intn(8)
	}
	plans := []string{"ok", "err1", "panic1", "err2", "errall", "panicall"}
	for i := 0; i < n; i++ {
		var calls []batchCall
		k := 1 + t.Intn(3)
		for j := 0; j < k; j++ {
			calls = append(calls, batchCall{Plan: plans[t.Pick(6, 2, 1, 1, 2, 1)], Pauses: t.Intn(6), Inner: t.Intn(3)})
		}
		ex.Callers = append(ex.Callers, calls)
	}
	ex.Updaters = t.Pick(3, 1, 1)
	if prop == "C03" {
		ex.Closer = t.Chance(2, 3)
		ex.CloseAfter = t.Intn(40)
	}
	if ft := ts.Get("fault"); prop != "C03" && ft.Chance(1, 3) {
		nf := 1 + ft.Intn(2)
		for i := 0; i < nf; i++ {
			ex.Faults = append(ex.Faults, sim.FaultPlan{K: ft.Intn(10 * n), Kind: []string{"eio", "short", "enospc", "short72"}[ft.Intn(4)]})
		}
	}
	c := &Case{Prop: prop, Engine: bs.Name(), Tier: tier, Seed: ts.Seed, Run: ts.Run, Prog: &work.Program{Cfg: cfg}, Tapes: map[string][]uint64{},
		Params: map[string]int{"stickiness": []int{0, 50, 80, 95}[t.Pick(1, 2, 3, 2)]}}
	c.Extra, _ = json.Marshal(ex)
	return c
}

func (bs batchsim) Run(c *Case, dir string) (out *Outcome) {
	out = &Outcome{}
	if curT == nil {
		out.HarnessErr = "batchsim needs the worker's testing.T"
		return out
	}
	if c.Tapes == nil {
		c.Tapes = map[string][]uint64{}
	}
	defer func() {
		if r := recover(); r != nil {
			if out.First("") == nil {
				out.HarnessErr = "bubble: " + fmt.Sprint(r)
			}
		}
	}()
	synctest.Test(curT, func(t *testing.T) { bs.runInBubble(c, dir, out) })
	return out
}

type callResult struct {
	caller, k   int
	plan        string
	err         error
	returned    bool
	invocations int
	ownErr      error
	ownPanic    string
	lastFailed  bool // the most recent invocation of fn failed
	panicked    bool // Batch propagated the function's panic to the caller
}

func (bs batchsim) runInBubble(c *Case, dir string, out *Outcome) {
	var ex batchExtra
	_ = json.Unmarshal(c.Extra, &ex)
	path := filepath.Join(dir, fmt.Sprintf("db-%d", c.Run))
	os.Remove(path)
	defer os.Remove(path)
	var schedTape, orderTape *sim.Tape
	if c.Tapes["sched"] != nil {
		schedTape = sim.ReplayTape("sched", c.Tapes["sched"])
		orderTape = sim.ReplayTape("order", c.Tapes["order"])
	} else {
		schedTape = sim.NewTape(c.Seed, c.Run, "sched")
		orderTape = sim.NewTape(c.Seed, c.Run, "order")
	}
	s := sim.NewSched(schedTape)
	s.Stickiness = c.Params["stickiness"]
	s.TimersPending = true
	s.KeepTrace = os.Getenv("VERIF_TRACE") != ""
	cfg := c.Prog.Cfg
	w := &sim.World{MapOrder: cfg.MapOrder, Order: orderTape, Sched: s}
	var disk *sim.Disk
	if len(ex.Faults) > 0 {
		disk = sim.NewDisk(path)
		disk.PageSize = cfg.PageSize
		disk.Multi = ex.Faults
		disk.Veto = func(op string, afterMeta bool) bool {
			// a failing final sync may legitimately leave the transaction present (C08's exception) and a
			// failing (un)map leaves the DB unusable: neither is what C16 speaks about
			return (op == "fdatasync" && afterMeta) || op == "mmap" || op == "munmap" || op == "mlock" || op == "munlock"
		}
		w.Disk = disk
	}
	w.Install()
	defer sim.Uninstall()

	e := work.NewExec(path, cfg)
	if err := e.Open(e.DefaultOpts()); err != nil {
		out.HarnessErr = fmt.Sprintf("initial open: %v", err)
		return
	}
	db := e.DB
	db.MaxBatchSize = ex.MaxBatchSize
	db.MaxBatchDelay = time.Duration(ex.MaxBatchDelay) * time.Microsecond
	if err := db.Update(func(tx *bolt.Tx) error { _, err := tx.CreateBucket([]byte("b")); return err }); err != nil {
		out.HarnessErr = err.Error()
		return
	}
	var viol []*work.Violation
	fail := func(class, f string, a ...any) {
		if len(viol) < 10 {
			viol = append(viol, &work.Violation{Prop: c.Prop, Class: class, Msg: fmt.Sprintf(f, a...)})
		}
	}
	closeInvoked, closed := false, false
	notOpenOK := func(err error) bool { return closeInvoked && errors.Is(err, berrors.ErrDatabaseNotOpen) }
	if disk != nil {
		disk.Arm(true)
	}
	var results []*callResult
	for ci, calls := range ex.Callers {
		ci, calls := ci, calls
		s.Go(fmt.Sprintf("caller%d", ci), func(t *sim.Task) {
			for k, bc := range calls {
				for i := 0; i < bc.Pauses && !s.Draining; i++ {
					t.Pause("caller.pause")
				}
				r := &callResult{caller: ci, k: k, plan: bc.Plan}
				r.ownErr = fmt.Errorf("own error of call %d/%d", ci, k)
				r.ownPanic = fmt.Sprintf("own panic of call %d/%d", ci, k)
				results = append(results, r)
				bc := bc
				fn := func(tx *bolt.Tx) error {
					r.invocations++
					inv := r.invocations
					r.lastFailed = true
					b := tx.Bucket([]byte("b"))
					ckey := []byte(fmt.Sprintf("ctr-%d", ci))
					var n uint64
					if v := b.Get(ckey); v != nil {
						n = binary.BigEndian.Uint64(v)
					}
					var buf [8]byte
					binary.BigEndian.PutUint64(buf[:], n+1)
					if err := b.Put(ckey, buf[:]); err != nil {
						return err
					}
					tok := []byte(fmt.Sprintf("tok-%d-%d", ci, k))
					if b.Get(tok) != nil {
						fail("duplicate-effect", "call %d/%d: its token is already present inside the transaction (effects applied twice)", ci, k)
					}
					if err := b.Put(tok, []byte{byte(inv)}); err != nil {
						return err
					}
					for i := 0; i < bc.Inner && !s.Draining; i++ {
						s.Yield(db, "batch.fn")
					}
					switch {
					case bc.Plan == "err1" && inv == 1, bc.Plan == "err2" && inv == 2, bc.Plan == "errall":
						return r.ownErr
					case bc.Plan == "panic1" && inv == 1, bc.Plan == "panicall":
						panic(r.ownPanic)
					}
					r.lastFailed = false
					return nil
				}
				func() {
					// a function that panics when re-run solo panics out of Batch
					// (TestDB_Batch_Panic documents this): that is the call failing
					// with its own panic value
					defer func() {
						if p := recover(); p != nil {
							if p != r.ownPanic {
								panic(p)
							}
							r.panicked = true
							r.err = fmt.Errorf("%s", r.ownPanic)
						}
					}()
					r.err = db.Batch(fn)
				}()
				r.returned = true
				t.Pause("caller.returned")
			}
		})
	}
	updaterCommits := 0
	for u := 0; u < ex.Updaters; u++ {
		u := u
		s.Go(fmt.Sprintf("updater%d", u), func(t *sim.Task) {
			for i := 0; i < 3 && !s.Draining; i++ {
				t.Pause("updater.pause")
				err := db.Update(func(tx *bolt.Tx) error {
					return tx.Bucket([]byte("b")).Put([]byte(fmt.Sprintf("upd-%d-%d", u, i)), []byte("x"))
				})
				if err != nil && disk != nil && disk.FiredN > 0 && injectedErr(err) {
					out.probe("updater-commit-failed-by-injected-fault", 1)
				} else if notOpenOK(err) {
					out.probe("update-after-close", 1)
				} else if err != nil {
					fail("updater-error", "plain Update failed: %v", err)
				} else {
					updaterCommits++
				}
			}
		})
	}
	if ex.Closer {
		s.Go("closer", func(t *sim.Task) {
			for i := 0; i < ex.CloseAfter && !s.Draining; i++ {
				t.Pause("closer.pause")
			}
			pendingAtClose := 0
			for _, r := range results {
				if !r.returned {
					pendingAtClose++
				}
			}
			closeInvoked = true
			if err := db.Close(); err != nil {
				fail("close-error", "Close: %v", err)
			}
			closed = true
			if pendingAtClose > 0 {
				out.probe("close-with-batch-calls-pending", 1)
			}
		})
	}
	s.Run()
	if disk != nil {
		disk.Arm(false)
		if disk.FiredN > 0 {
			out.fault("io-fault-during-batch-commit", disk.FiredN)
		}
	}
	out.Decisions = s.Decisions
	out.SimTimeNS = int64(time.Since(s.SimStart))
	out.Interleaved = []uint64{s.Fingerprint()}
	out.Trace = s.Trace
	out.probe("preemptions", s.Preempts)
	for k, v := range s.Points {
		out.probe(k, v)
	}
	out.probe("goroutines-adopted-at-ordinary-hooks", s.Adopted)
	out.probe("time-advances", s.TimeAdv)
	if s.TimeAdv > 0 {
		out.fault("timer-fired/clock-advanced", s.TimeAdv)
	}
	for _, p := range s.TaskPanics() {
		fail("panic", "panic escaped into a task: %s", p)
	}
	c.Tapes["sched"] = append([]uint64(nil), schedTape.Rec...)
	c.Tapes["order"] = append([]uint64(nil), orderTape.Rec...)
	if s.Deadlock != "" || s.Stuck {
		pending := 0
		for _, r := range results {
			if !r.returned {
				pending++
			}
		}
		fail("batch-call-never-returns", "%d Batch call(s) never returned although the clock was advanced: %s", pending, s.Deadlock)
		out.Viol = viol
		s.Abort()
		return
	}
	// final committed state
	counters := map[int]uint64{}
	tokens := map[string]bool{}
	if closed {
		e.DB = nil
		if err := e.Open(e.Opts); err != nil {
			fail("reopen-error", "Open after Close: %v", err)
			out.Viol = viol
			return
		}
		db = e.DB
	}
	_ = db.View(func(tx *bolt.Tx) error {
		return tx.Bucket([]byte("b")).ForEach(func(k, v []byte) error {
			ks := string(k)
			switch {
			case strings.HasPrefix(ks, "ctr-"):
				var ci int
				fmt.Sscanf(ks, "ctr-%d", &ci)
				counters[ci] = binary.BigEndian.Uint64(v)
			case strings.HasPrefix(ks, "tok-"):
				tokens[ks] = true
			}
			return nil
		})
	})
	okPerCaller := map[int]uint64{}
	retried := 0
	for _, r := range results {
		tok := fmt.Sprintf("tok-%d-%d", r.caller, r.k)
		if !r.returned {
			fail("batch-call-never-returns", "call %d/%d did not return", r.caller, r.k)
			continue
		}
		if r.invocations > 1 {
			retried++
		}
		wantErr := r.lastFailed
		switch {
		case r.err == nil:
			okPerCaller[r.caller]++
			if !tokens[tok] {
				fail("lost-effect", "call %d/%d (plan %s, %d invocations) returned nil but its token is not committed", r.caller, r.k, r.plan, r.invocations)
			}
			if wantErr {
				fail("swallowed-failure", "call %d/%d (plan %s) returned nil although its function failed on its last invocation", r.caller, r.k, r.plan)
			}
		default:
			if tokens[tok] {
				fail("effect-of-failed-call", "call %d/%d returned %v but its token is committed", r.caller, r.k, r.err)
			}
			own := r.err == r.ownErr || strings.Contains(r.err.Error(), r.ownPanic)
			if !own && notOpenOK(r.err) {
				// the database was closed under the call: it is told so (and, checked above, nothing of it is committed)
				out.probe("batch-call-refused-after-close", 1)
			} else if !own && disk != nil && disk.FiredN > 0 && injectedErr(r.err) {
				// the commit of the batch this call was in failed: every caller of that batch is told so and
				// (checked above) none of its effects are committed
				out.probe("batch-call-failed-by-injected-commit-failure", 1)
			} else if !own {
				fail("foreign-error", "call %d/%d (plan %s) returned %q which is not its own error or panic value", r.caller, r.k, r.plan, r.err.Error())
			} else if !wantErr {
				fail("spurious-failure", "call %d/%d (plan %s, %d invocations) returned %v although its last invocation succeeded", r.caller, r.k, r.plan, r.invocations, r.err)
			}
		}
	}
	for ci := range ex.Callers {
		if counters[ci] != okPerCaller[ci] {
			fail("counter", "caller %d: %d calls returned nil but its committed counter is %d (each successful function must be applied exactly once)", ci, okPerCaller[ci], counters[ci])
		}
	}
	out.probe("batch-calls", len(results))
	out.probe("fn-reinvoked", retried)
	if err := db.Close(); err != nil {
		fail("close-error", "%v", err)
	}
	if disk != nil && disk.FiredN > 0 && len(viol) == 0 {
		// the file left behind by batches with failed commits is a consistent database
		if data, rerr := os.ReadFile(path); rerr == nil {
			if im, derr := dec.Load(data); derr != nil {
				fail("file-after-failed-batch", "decoder: %v", derr)
			} else if wi, ok := im.Winner(); !ok {
				fail("file-after-failed-batch", "no valid meta page")
			} else if res := im.Decode(wi); res.Fatal != "" || !res.Clean() {
				fail("file-after-failed-batch", "page accounting after failed batch commits: %s %s", res.Fatal, res.ProblemString())
			}
		}
	}
	out.Viol = viol
	out.Evals = 1
	if len(results) > 1 {
		out.Distinct = append(out.Distinct, s.Fingerprint())
	}
	out.Sample = map[string]any{"run": c.Run, "max_batch_size": ex.MaxBatchSize, "max_batch_delay_us": ex.MaxBatchDelay, "callers": ex.Callers, "decisions": s.Decisions, "clock_advances": s.TimeAdv, "updater_commits": updaterCommits}
}

func (bs batchsim) Shrinks(c *Case) []*Case {
	var ex batchExtra
	_ = json.Unmarshal(c.Extra, &ex)
	var out []*Case
	emit := func(e2 batchExtra) {
		d := c.Clone()
		d.Extra, _ = json.Marshal(e2)
		out = append(out, d)
	}
	for i := range ex.Callers {
		e2 := ex
		e2.Callers = append(append([][]batchCall(nil), ex.Callers[:i]...), ex.Callers[i+1:]...)
		emit(e2)
	}
	for i, calls := range ex.Callers {
		for j := range calls {
			e2 := ex
			e2.Callers = append([][]batchCall(nil), ex.Callers...)
			e2.Callers[i] = append(append([]batchCall(nil), calls[:j]...), calls[j+1:]...)
			emit(e2)
			if calls[j].Plan != "ok" {
				e3 := ex
				e3.Callers = append([][]batchCall(nil), ex.Callers...)
				cc := append([]batchCall(nil), calls...)
				cc[j].Plan = "ok"
				e3.Callers[i] = cc
				emit(e3)
			}
		}
	}
	if ex.Updaters > 0 {
		e2 := ex
		e2.Updaters = 0
		emit(e2)
	}
	for i := range ex.Faults {
		e2 := ex
		e2.Faults = append(append([]sim.FaultPlan(nil), ex.Faults[:i]...), ex.Faults[i+1:]...)
		emit(e2)
	}
	if st := c.Tapes["sched"]; len(st) > 1 {
		for _, k := range []int{len(st) / 2, len(st) * 3 / 4} {
			d := c.Clone()
			d.Tapes["sched"] = d.Tapes["sched"][:k]
			out = append(out, d)
		}
	}
	return out
}

func init() {
	register(&Info{Prop: "C16", Engine: batchsim{}, Level: "exploration", QuickS: 45, ThoroughS: 600,
		RealStub: "real: all of bbolt incl. DB.Batch, its timer (time.AfterFunc) and the goroutines it spawns, real sync primitives; injected: I/O errors on the k-th pwrite/fdatasync/ftruncate/fsync call (a third of the runs); simulated: which goroutine runs next (token scheduler; goroutines bbolt spawns are adopted at the batch.trigger hook), the clock (synctest bubble: MaxBatchDelay timers fire only when the scheduler advances time), map iteration order",
		Rule:     "one evaluation = one seeded run of 1-8 caller tasks issuing 1-3 Batch calls each (plus optional plain Update callers) with MaxBatchSize in {0,1,2,3,1000}, MaxBatchDelay in {0,1ms,10ms,100ms}, and a failure plan per call (ok / error or panic on first, second or every invocation); each function increments its caller's counter (read-modify-write) and writes a unique token. Oracle: nil return => token committed and counter advanced exactly once per successful call; error return => it is the call's own error/panic value and neither token nor increment is committed; every call returns once the clock may advance. In a third of the runs 1-2 I/O faults (EIO / short write / ENOSPC at a tape-chosen I/O call) are injected while the callers run: a call whose batch's commit failed must return that failure and none of its effects may be committed, the other calls are judged as before, and the file left behind must have exact page accounting. distinct_nontrivial = distinct schedule fingerprints among runs with at least two Batch calls",
		Assume:   []string{"interleavings below hook granularity are not explored"}})
}
