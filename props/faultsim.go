package props

import (
	"encoding/json"
	"errors"
	"fmt"
	"os"
	"path/filepath"
	"runtime"
	"strings"
	"time"

	bolt "go.etcd.io/bbolt"
	berrors "go.etcd.io/bbolt/errors"
	"go.etcd.io/bbolt/xverif/model"
	"go.etcd.io/bbolt/xverif/sim"
	"go.etcd.io/bbolt/xverif/work"
)

// faultsim fails the k-th I/O call of one commit of a seeded history (C08).
type faultsim struct{}

func (faultsim) Name() string { return "faultsim" }

type faultExtra struct {
	Target int             `json:"target"` // step index of the commit that is made to fail
	Plans  []sim.FaultPlan `json:"plans,omitempty"`
}

func writeSteps(p *work.Program) []int {
	var idx []int
	for i, s := range p.Steps {
		if s.Kind == "tx" && (s.Tx.Mode == "update" || s.Tx.Mode == "rw") && s.Tx.End == "commit" {
			idx = append(idx, i)
		}
	}
	return idx
}

func (fs faultsim) Gen(prop, tier string, ts *sim.Tapes) *Case {
	cfg := work.GenConfig(ts.Get("cfg"))
	cfg.StrictMode = false
	p := work.GenParams{MaxSteps: 8, MaxOps: 25, Reopen: true, Readers: true, NoErrors: true}
	if tier == "thorough" {
		p.MaxSteps, p.MaxOps = 15, 40
	}
	p.Guards = ActiveGuards()
	t := ts.Get("swarm")
	if t.Chance(1, 3) {
		p.BucketHeavy = true
	}
	var prog *work.Program
	var ws []int
	for try := 0; try < 5 && len(ws) == 0; try++ {
		prog = work.GenProgram(ts, cfg, p)
		ws = writeSteps(prog)
	}
	c := &Case{Prop: prop, Engine: fs.Name(), Tier: tier, Seed: ts.Seed, Run: ts.Run, Prog: prog, Tapes: map[string][]uint64{}, Params: map[string]int{}}
	ex := faultExtra{Target: -1}
	if len(ws) > 0 {
		ex.Target = ws[t.Intn(len(ws))]
	}
	c.Extra, _ = json.Marshal(ex)
	c.Params["max_plans"] = 8
	if tier == "thorough" {
		c.Params["max_plans"] = 0 // every call of the target commit
	}
	return c
}

// runFaulted executes the program once with plan applied to the target step
// (plan == nil: probe pass). It returns the ops seen in the armed window.
func (fs faultsim) runFaulted(c *Case, dir string, target int, plan *sim.FaultPlan, out *Outcome) (viol []*work.Violation, armedCalls []string, fired string, harness string) {
	path := filepath.Join(dir, "db")
	os.Remove(path)
	defer os.Remove(path)
	order := sim.NewTape(c.Seed, c.Run, "order")
	if c.Tapes["order"] != nil {
		order = sim.ReplayTape("order", c.Tapes["order"])
	}
	disk := sim.NewDisk(path)
	disk.PageSize = c.Prog.Cfg.PageSize
	disk.Plan = plan
	guards := ActiveGuards()
	e := work.NewExec(path, c.Prog.Cfg)
	e.FileChecks = true
	e.RollbackAfterFailedCommit = c.Run%4 >= 2 // half of the runs use the `defer tx.Rollback()` idiom
	disk.Veto = func(op string, afterMeta bool) bool {
		// F6 (listed known finding): final sync fails while a reader is open
		if guards.NoReaderAcrossFault && c.Params["no_guard"] == 0 && op == "fdatasync" && afterMeta && len(e.Readers) > 0 {
			out.probe("skipped-listed-finding-F6", 1)
			return true
		}
		return false
	}
	w := &sim.World{MapOrder: c.Prog.Cfg.MapOrder, Order: order, Disk: disk}
	var obs *flObserver
	if c.Prop == "C09" {
		obs = newFLObserver(path)
		w.FLObs = obs.On
	}
	w.Install()
	defer sim.Uninstall()
	finished := false
	defer func() {
		if finished && e.DB != nil {
			_ = e.Close()
		}
	}()
	if err := e.Open(e.DefaultOpts()); err != nil {
		return nil, nil, "", fmt.Sprintf("initial open: %v", err)
	}
	fail := func(class, f string, a ...any) {
		e.Viol = append(e.Viol, &work.Violation{Prop: "C08", Class: class, Msg: fmt.Sprintf(f, a...), Step: target})
	}
	// violations that follow "the final sync of a commit failed while a read
	// transaction older than that commit was open" carry that fact in their
	// class (it is the whole description of listed finding F6)
	readersAtFault := 0
	tagF6 := func(vs []*work.Violation) {
		if disk.FiredOp == "fdatasync" && disk.FiredAfterMeta && readersAtFault > 0 {
			for _, v := range vs {
				if v.Prop == "C08" && !strings.HasPrefix(v.Class, "final-sync-failed-with-reader-open") {
					v.Class = "final-sync-failed-with-reader-open:" + v.Class
				}
			}
		}
	}
	var faultErr error
	var after *model.Bucket
	afterID := 0
	e.OnBegin = func(txid int) {}
	for i := range c.Prog.Steps {
		st := &c.Prog.Steps[i]
		if i != target {
			// the step right after the failure must not block (leaked writer lock)
			if i == target+1 && disk.Fired != "" {
				done := make(chan struct{})
				go func() { defer close(done); e.RunStep(i, st) }()
				select {
				case <-done:
				case <-time.After(25 * time.Second):
					fail("next-step-blocked", "the step after the failed commit did not finish within 25s (after %s)", disk.Fired)
					buf := make([]byte, 1<<17)
					out.Trace = append(out.Trace, string(buf[:runtime.Stack(buf, true)]))
					tagF6(e.Viol)
					return e.Viol, disk.ArmedCalls, disk.Fired, ""
				}
			} else {
				e.RunStep(i, st)
			}
			if e.LastCommitOK {
				e.AllowInvalidMeta = false // the torn slot, if any, has been rewritten by this commit
			}
			if e.Failed() {
				break
			}
			continue
		}
		// ---- the commit that is made to fail
		before := e.Cur
		beforeID := e.LastTxid
		e.TolerateErr = true
		e.OnBegin = func(txid int) { disk.Arm(true); afterID = txid }
		e.OnCommitRV = func(txid int, err error) { disk.Arm(false) }
		e.FileChecks = false
		// run the transaction; capture what the state would be if it committed
		wcopy := (*model.Bucket)(nil)
		func() {
			e.RunTxCapture(st.Tx, &wcopy)
		}()
		disk.Arm(false)
		e.OnBegin, e.OnCommitRV = nil, nil
		e.TolerateErr = false
		e.FileChecks = true
		after = wcopy
		faultErr = e.LastErr
		if e.Failed() {
			break
		}
		if disk.Fired == "" {
			// the plan's call index was not reached (or vetoed): fault-free commit
			if faultErr != nil {
				fail("spurious-error", "commit failed with %v although no fault fired", faultErr)
			}
			e.CheckContent("commit")
			e.CheckFile("commit")
			continue
		}
		out.fault(disk.FiredOp+":"+plan.Kind, 1)
		readersAtFault = len(e.Readers)
		if len(e.Readers) > 0 {
			out.fault("with-reader-open-across-failure", 1)
		}
		if faultErr == nil {
			fail("swallowed-error", "%s but Commit/Update returned nil", disk.Fired)
			break
		}
		exception := disk.FiredOp == "fdatasync" && disk.FiredAfterMeta
		// the next writer must be able to start (no leaked writer lock)
		{
			done := make(chan error, 1)
			db := e.DB
			go func() {
				tx, berr := db.Begin(true)
				if berr == nil {
					berr = tx.Rollback()
				}
				done <- berr
			}()
			select {
			case berr := <-done:
				if berr != nil && !errors.Is(berr, berrors.ErrInvalidMapping) {
					fail("begin-after-fault", "Begin(true) after %s: %v", disk.Fired, berr)
				}
			case <-time.After(12 * time.Second):
				fail("writer-blocked", "after %s (commit returned %v) the next Begin(true) does not return: the writer lock was not released", disk.Fired, faultErr)
				e.DB = nil // leak: its locks are held
			}
			if e.Failed() {
				break
			}
		}
		// in-process view
		var got *model.Bucket
		gotID := -1
		verr := e.DB.View(func(tx *bolt.Tx) error { got = e.Dump(tx); gotID = tx.ID(); return nil })
		if errors.Is(verr, berrors.ErrInvalidMapping) {
			out.probe("db-unmapped-after-fault", 1)
			// must keep refusing (not hang, not fault); state is checked after reopen
			if _, berr := e.DB.Begin(true); !errors.Is(berr, berrors.ErrInvalidMapping) {
				fail("unmapped-begin", "after %s Begin(true) returned %v, want ErrInvalidMapping", disk.Fired, berr)
				break
			}
			e.Readers = map[int]*work.Reader{} // readers of an unmapped DB cannot be used
			if cerr := e.DB.Close(); cerr != nil {
				out.probe("close-error-after-unmap", 1)
			}
			e.DB = nil
			if oerr := e.Open(e.Opts); oerr != nil {
				fail("reopen-after-fault", "Open after %s: %v", disk.Fired, oerr)
				break
			}
			e.AllowInvalidMeta = true
			e.CheckContent("reopen after " + disk.Fired)
			e.CheckFile("reopen after " + disk.Fired)
			continue
		}
		if verr != nil {
			fail("view-after-fault", "View after %s: %v", disk.Fired, verr)
			break
		}
		switch {
		case gotID == beforeID:
			if d := model.Diff(got, before); d != "" {
				fail("visible-after-failed-commit", "after %s (commit returned %v) a read transaction at the old txid %d shows changed content: %s", disk.Fired, faultErr, gotID, d)
			}
		case gotID == afterID && exception && after != nil:
			// documented exception: entirely present
			if d := model.Diff(got, after); d != "" {
				fail("partial-after-final-sync-failure", "after %s the new txid %d is visible but its content is not the whole transaction: %s", disk.Fired, gotID, d)
			}
			out.probe("final-sync-failure-tx-present", 1)
			e.Cur = after
			e.LastTxid = afterID
			e.Versions[afterID] = after
		default:
			fail("visible-after-failed-commit", "after %s (commit returned %v) reads run at txid %d (before the commit: %d)", disk.Fired, faultErr, gotID, beforeID)
		}
		if e.Failed() {
			break
		}
		for _, id := range sortedReaderIDs(e) {
			e.CheckReader(id)
		}
		e.AllowInvalidMeta = true
		e.CheckFile("failed commit (" + disk.Fired + ")")
		// re-attribute accounting problems found right after the failure
		for _, v := range e.Viol {
			if v.Prop == c.Prop {
				continue // the check that asked for this run owns these (e.g. C07's accounting after a failed commit)
			}
			if v.Prop == "C07" || v.Prop == "C12" || v.Prop == "C02" || v.Prop == "C04" {
				v.Msg = v.Prop + "/" + v.Class + ": " + v.Msg
				v.Prop, v.Class = "C08", "state-after-failed-commit"
			}
		}
		if e.Failed() {
			break
		}
	}
	if !e.Failed() {
		// clean close and reopen must show the same content
		if err := e.Close(); err != nil {
			out.probe("close-error", 1)
		}
		e.DB = nil
		if err := e.Open(e.Opts); err != nil {
			fail("reopen-after-fault", "final reopen: %v", err)
		} else {
			n := len(e.Viol)
			e.CheckContent("final reopen")
			e.CheckFile("final reopen")
			if disk.Fired != "" {
				for _, v := range e.Viol[n:] {
					if v.Prop == c.Prop {
						continue
					}
					v.Msg = v.Prop + "/" + v.Class + ": " + v.Msg
					v.Prop, v.Class = "C08", "state-after-reopen"
				}
			}
			_ = e.Close()
		}
	}
	finished = true
	if plan == nil {
		c.Tapes["order"] = append([]uint64(nil), order.Rec...)
	}
	out.merge(e.Probes)
	tagF6(e.Viol)
	if obs != nil {
		out.merge(obs.probes)
		// after the final sync failed the new meta is visible: the "prior state" clause does not apply (F6 territory)
		if !(disk.FiredOp == "fdatasync" && disk.FiredAfterMeta) {
			e.Viol = append(e.Viol, obs.viol...)
		}
	}
	return e.Viol, disk.ArmedCalls, disk.Fired, ""
}

func (fs faultsim) Run(c *Case, dir string) *Outcome {
	out := &Outcome{}
	if c.Tapes == nil {
		c.Tapes = map[string][]uint64{}
	}
	var ex faultExtra
	_ = json.Unmarshal(c.Extra, &ex)
	if ex.Target < 0 || ex.Target >= len(c.Prog.Steps) || c.Prog.Steps[ex.Target].Kind != "tx" {
		// no commit to fail (can happen while shrinking): nothing to evaluate
		out.Evals = 1
		return out
	}
	plans := ex.Plans
	if len(plans) == 0 {
		viol, calls, _, herr := fs.runFaulted(c, dir, ex.Target, nil, out)
		if herr != "" {
			out.HarnessErr = herr
			return out
		}
		out.Evals++
		if len(viol) > 0 {
			out.Viol = viol
			return out
		}
		for k, op := range calls {
			kinds := []string{"eio"}
			switch op {
			case "write":
				kinds = []string{"eio", "short", "enospc", "short72"}
			case "truncate":
				kinds = []string{"enospc", "eio"}
			}
			for _, kind := range kinds {
				plans = append(plans, sim.FaultPlan{K: k, Kind: kind})
			}
		}
		if mp := c.Params["max_plans"]; mp > 0 && len(plans) > mp {
			t := sim.NewTape(c.Seed, c.Run, "fault")
			// always include the last calls (meta write and final sync), sample the rest
			nk := 5 // the meta write in all its kinds and the final sync
			if nk > len(plans) {
				nk = len(plans)
			}
			keep := append([]sim.FaultPlan(nil), plans[len(plans)-nk:]...)
			rest := plans[:len(plans)-nk]
			for len(keep) < mp && len(rest) > 0 {
				i := t.Intn(len(rest))
				keep = append(keep, rest[i])
				rest = append(rest[:i:i], rest[i+1:]...)
			}
			plans = keep
		}
	}
	for _, pl := range plans {
		if PastDeadline() {
			out.probe("stopped-at-deadline", 1)
			break
		}
		Tick()
		plan := pl
		viol, _, fired, herr := fs.runFaulted(c, dir, ex.Target, &plan, out)
		if herr != "" {
			out.HarnessErr = herr
			return out
		}
		out.Evals++
		if fired != "" {
			out.Distinct = append(out.Distinct, mixHash(c.Seed, c.Run, uint64(ex.Target), uint64(plan.K), hashStr(plan.Kind)))
		}
		if len(viol) > 0 {
			out.Viol = viol
			ex.Plans = []sim.FaultPlan{plan}
			c.Extra, _ = json.Marshal(ex)
			break
		}
	}
	out.Sample = map[string]any{"run": c.Run, "cfg": c.Prog.Cfg, "target_step": ex.Target, "fault_plans": len(plans), "steps": c.Prog.Describe(4)}
	return out
}

func hashStr(s string) uint64 {
	h := uint64(14695981039346656037)
	for i := 0; i < len(s); i++ {
		h ^= uint64(s[i])
		h *= 1099511628211
	}
	return h
}

func mixHash(vs ...uint64) uint64 {
	h := uint64(0x9E3779B97F4A7C15)
	for _, v := range vs {
		h ^= v + 0x9E3779B97F4A7C15 + (h << 6) + (h >> 2)
	}
	return h
}

func (fs faultsim) Shrinks(c *Case) []*Case {
	var ex faultExtra
	_ = json.Unmarshal(c.Extra, &ex)
	var out []*Case
	// drop steps after the target first, then ops; keep the target index aligned
	n := len(c.Prog.Steps)
	for i := n - 1; i >= 0; i-- {
		if i == ex.Target {
			continue
		}
		d := c.Clone()
		d.Prog.Steps = append(d.Prog.Steps[:i:i], d.Prog.Steps[i+1:]...)
		e2 := ex
		if i < ex.Target {
			e2.Target--
		}
		d.Extra, _ = json.Marshal(e2)
		out = append(out, d)
	}
	for si, st := range c.Prog.Steps {
		if st.Kind != "tx" {
			continue
		}
		m := len(st.Tx.Ops)
		for _, k := range []int{m / 2, m / 4, 1} {
			if k < 1 {
				continue
			}
			for start := 0; start+k <= m; start += k {
				d := c.Clone()
				ops := d.Prog.Steps[si].Tx.Ops
				d.Prog.Steps[si].Tx.Ops = append(ops[:start:start], ops[start+k:]...)
				if si <= ex.Target {
					// the I/O pattern of the target commit may change: re-enumerate plans
					e2 := faultExtra{Target: ex.Target}
					d.Extra, _ = json.Marshal(e2)
					d.Params["max_plans"] = 0
				}
				out = append(out, d)
				if len(out) > 1500 {
					return out
				}
			}
		}
	}
	return out
}

func init() {
	fs := faultsim{}
	register(&Info{Prop: "C08", Engine: altEngine{[]Engine{fs, fs, schedsim{}, fs, sizesim{}, schedsim{}}}, Level: "fault_enumeration", QuickS: 60, ThoroughS: 900,
		RealStub: "real: all of bbolt (tag verif), real file + mmap on tmpfs; injected: the k-th pwrite/fdatasync/ftruncate/fsync/mmap/munmap/mlock/munlock call of one commit fails once (EIO, ENOSPC, short write) through the I/O hooks; simulated: map iteration order",
		Rule:     "per seeded history one commit is chosen; a probe pass counts the I/O calls that commit issues; evaluations = re-executions of the history with the k-th call failing, for every k and fault kind in thorough (a sample incl. the meta write and the final sync in quick), with and without read transactions held across the failure, followed by the rest of the history, close and reopen. distinct_nontrivial = distinct (history, target commit, k, kind) in which the fault really fired. Every third run index is the concurrent arm: 1-3 writer tasks and 0-3 reader tasks under the token scheduler while 1-3 I/O faults (EIO / short write / ENOSPC at tape-chosen I/O calls) hit whichever commits are running; the failing Commit/Update must return an error and leave no version behind, readers of every age (also those that begin or are mid-dump during the failing commit and its rollback) keep their snapshot, waiting and later writers proceed (a task that can never run again is reported with the lock table), ids stay consecutive, and after the run a clean reopen shows exactly the newest acknowledged version with exact page accounting (distinct there = schedule fingerprints of runs in which a fault fired and a pre-emption happened)",
		Assume:   []string{"faults are injected only between Begin(true) and the return of Commit", "a short write is always reported with an error", "the final-sync exception allows exactly {whole old state, whole new state}, identical in process and after reopen", "listed finding F6 (final sync fails while a reader is open) is excluded from exploration by a guard and covered by its canonical reproducer", "concurrent arm: failures of the final sync and of mmap/munmap are left to the sequential arm"}})
}
