package props

import (
	"syscall"
	"fmt"
	"os"
	"path/filepath"
	"sync/atomic"
	"testing"
	"time"
)

// curT is the worker's testing.T (synctest bubbles need one).
var curT *testing.T

// runStart is the real time of the last sign of progress of the current run
// (0: no run in progress); the worker's watchdog reads it.
var runStart atomic.Int64

// deadlineNS is the wall-clock deadline of the worker's exploration (0: none).
var deadlineNS atomic.Int64

// PastDeadline lets long multi-evaluation runs stop early (what was evaluated
// so far is still reported) instead of overrunning the budget.
func PastDeadline() bool {
	d := deadlineNS.Load()
	return d != 0 && time.Now().UnixNano() > d
}

// Tick tells the watchdog that a long run is still making progress.
func Tick() {
	if runStart.Load() != 0 {
		runStart.Store(realNow())
	}
}

// realNow reads the real clock even inside a synctest bubble (where time.Now is the fake clock).
func realNow() int64 {
	var tv syscall.Timeval
	if err := syscall.Gettimeofday(&tv); err != nil {
		return time.Now().UnixNano()
	}
	return tv.Sec*1e9 + tv.Usec*1e3
}

// journalDir, when set, is where engines that may crash the whole process
// (corrupted files) record what they are about to do.
var journalDir string
var journalID int

// Journal records the case and the evaluation about to be executed; a worker
// that dies leaves it behind and the supervisor turns it into a violation.
func Journal(c *Case, what string) {
	if journalDir == "" {
		return
	}
	jc := filepath.Join(journalDir, fmt.Sprintf("journal-%d.json", journalID))
	if _, err := os.Stat(jc); err != nil {
		_ = SaveCase(jc, c)
	}
	_ = os.WriteFile(filepath.Join(journalDir, fmt.Sprintf("journal-%d.what", journalID)), []byte(what), 0644)
}

// JournalDone removes the journal of a finished run.
func JournalDone() {
	if journalDir == "" {
		return
	}
	os.Remove(filepath.Join(journalDir, fmt.Sprintf("journal-%d.json", journalID)))
	os.Remove(filepath.Join(journalDir, fmt.Sprintf("journal-%d.what", journalID)))
}

// Spec tells a worker process what to do (file named by VERIF_SPEC).
type Spec struct {
	Mode         string `json:"mode"` // explore | replay | shrink
	Prop         string `json:"prop"`
	Tier         string `json:"tier"`
	Seed         uint64 `json:"seed"`
	First        uint64 `json:"first"`
	Stride       uint64 `json:"stride"`
	DeadlineMS   int64  `json:"deadline_ms"`
	MaxRuns      int    `json:"max_runs"`
	OutDir       string `json:"out_dir"`
	ID           int    `json:"id"`
	Replay       string `json:"replay"`
	ShrinkBudget int    `json:"shrink_budget"`
	StuckS       int    `json:"stuck_s"`
	MaxViol      int    `json:"max_viol"`
	JournalAll   bool   `json:"journal_all"` // journal every run (used to locate the run that kills the process)
}

// ViolRec is one violation a worker found.
type ViolRec struct {
	Prop  string `json:"prop"`
	Class string `json:"class"`
	Msg   string `json:"msg"`
	Path  string `json:"path"`
	Run   uint64 `json:"run"`
}

// Result is what a worker reports.
type Result struct {
	ID          int               `json:"id"`
	Runs        int               `json:"runs"`
	Evals       int               `json:"evals"`
	Distinct    []uint64          `json:"distinct"`
	Interleaved []uint64          `json:"interleaved"`
	Probes      map[string]int    `json:"probes"`
	Faults      map[string]int    `json:"faults"`
	Violations  []ViolRec         `json:"violations"`
	OtherProps  map[string]int    `json:"other_props"` // violations seen that belong to other properties (not reported by this check)
	HarnessErrs []string          `json:"harness_errs"`
	Samples     []any             `json:"samples"`
	SimTimeNS   int64             `json:"sim_time_ns"`
	Decisions   int               `json:"decisions"`
	WallS       float64           `json:"wall_s"`
	Reproduced  bool              `json:"reproduced"`
	Digests     map[string]uint64 `json:"digests,omitempty"` // run -> digest of everything observable (determinism self-test)
	ShrinkRuns  int               `json:"shrink_runs"`
}
