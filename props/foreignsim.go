package props

import (
	"encoding/json"
	"fmt"
	"os"
	"path/filepath"

	"go.etcd.io/bbolt/xverif/dec"
	"go.etcd.io/bbolt/xverif/model"
	"go.etcd.io/bbolt/xverif/sim"
	"go.etcd.io/bbolt/xverif/work"
)

// foreignsim (C12, "files written by other builds of the same format"): the
// content reached by a seeded history is laid out as a version-2 file by an
// independent *writer* (dec/enc.go) that makes layout choices the current
// bbolt writer never makes but the published format allows - arbitrary page
// fill, pages scattered with free gaps, the freelist page anywhere or absent,
// several elements on a page with overflow, gaps between element data, small
// buckets paged or inline, a file longer than its high-water mark, the newest
// meta in either slot. The real code must open that file (read-only and
// read-write, any options), read back exactly the content, agree with the
// independent accounting, and carry on with a second seeded history on it.
type foreignsim struct{}

func (foreignsim) Name() string { return "foreignsim" }

type foreignExtra struct {
	Txid        uint64 `json:"txid"`
	Persist     bool   `json:"persist_freelist"`
	Scatter     bool   `json:"scatter"`
	GapData     bool   `json:"gap_data"`
	NeverInline bool   `json:"never_inline"`
	Tail        int    `json:"tail_pages"`
	Plain       bool   `json:"plain_layout,omitempty"` // every layout choice 0 (shrinking)
	ROFirst     bool   `json:"read_only_first"`
	Open        work.OpenOpts
}

func (fs foreignsim) Gen(prop, tier string, ts *sim.Tapes) *Case {
	cfg := work.GenConfig(ts.Get("cfg"))
	p := work.GenParams{MaxSteps: 6, MaxOps: 40, NoErrors: true, OnlyCommit: true}
	if tier == "thorough" {
		p.MaxSteps, p.MaxOps = 12, 80
	}
	p.Guards = ActiveGuards()
	t := ts.Get("swarm")
	switch t.Pick(3, 2, 1) {
	case 1:
		p.BucketHeavy = true
	case 2:
		p.NoBigValues = true
	}
	prog := work.GenProgram(ts, cfg, p)
	p2 := work.GenParams{MaxSteps: 6, MaxOps: 30, Reopen: true, ReopenOpts: true, Guards: p.Guards}
	if tier == "thorough" {
		p2.MaxSteps = 14
	}
	sub := sim.NewTapes(ts.Seed, ts.Run*977+13)
	prog2 := work.GenProgramFrom(sub, cfg, p2, work.FinalModel(prog))
	ex := foreignExtra{Txid: uint64(2 + t.Intn(9)), Persist: t.Chance(2, 3), Scatter: t.Chance(2, 3), GapData: t.Chance(1, 3),
		NeverInline: t.Chance(1, 5), Tail: []int{0, 1, 7}[t.Pick(3, 1, 1)], ROFirst: t.Chance(1, 3), Open: work.GenOpenOpts(t, cfg)}
	ex.Open.WrongPageSize = false
	c := &Case{Prop: prop, Engine: fs.Name(), Tier: tier, Seed: ts.Seed, Run: ts.Run, Prog: prog, Clients: [][]work.Step{prog2.Steps}, Tapes: map[string][]uint64{}}
	c.Extra, _ = json.Marshal(ex)
	return c
}

func (fs foreignsim) Run(c *Case, dir string) *Outcome {
	out := &Outcome{}
	var ex foreignExtra
	_ = json.Unmarshal(c.Extra, &ex)
	pathA := filepath.Join(dir, "db")
	pathB := filepath.Join(dir, "foreign")
	os.Remove(pathA)
	os.Remove(pathB)
	defer os.Remove(pathA)
	defer os.Remove(pathB)
	order := sim.ReplayTape("order", c.Tapes["order"])
	if c.Tapes["order"] == nil {
		order = sim.NewTape(c.Seed, c.Run, "order")
	}
	cfg := c.Prog.Cfg
	w := &sim.World{MapOrder: cfg.MapOrder, Order: order}
	w.Install()
	defer sim.Uninstall()

	// phase A: reach a content with the real code (this also yields the model with its real values)
	a := work.NewExec(pathA, cfg)
	if err := a.Open(a.DefaultOpts()); err != nil {
		out.HarnessErr = fmt.Sprintf("initial open: %v", err)
		return out
	}
	for i := range c.Prog.Steps {
		Tick()
		a.RunStep(i, &c.Prog.Steps[i])
		if a.Failed() {
			break
		}
	}
	if a.Failed() {
		out.Viol = a.Viol // not this arm's business (C04 … report them in their own checks)
		out.Evals = 1
		return out
	}
	_ = a.Close()
	content := a.Cur

	// phase B: the same content written by the independent encoder
	lay := sim.NewTape(c.Seed, c.Run, "layout")
	eo := dec.EncOpts{PageSize: cfg.PageSize, Txid: ex.Txid, PersistFreelist: ex.Persist, Scatter: ex.Scatter, GapData: ex.GapData,
		NeverInline: ex.NeverInline, TailPages: ex.Tail}
	if !ex.Plain {
		eo.Choose = func(n int) int { return lay.Intn(n) }
	}
	img, info := dec.Encode(content, eo)
	// the encoder and the decoder are both ours: they must agree before anything is concluded
	im, err := dec.Load(img)
	if err != nil {
		out.HarnessErr = "encoder output not loadable by the decoder: " + err.Error()
		return out
	}
	wi, ok := im.Winner()
	if !ok || int(im.Metas[wi].Txid) != int(ex.Txid) {
		out.HarnessErr = "encoder output: wrong winning meta"
		return out
	}
	res := im.Decode(wi)
	if res.Fatal != "" || !res.Clean() {
		out.HarnessErr = "encoder output does not pass the decoder's accounting: " + res.ProblemString()
		return out
	}
	if d := model.Diff(res.Root, content); d != "" {
		out.HarnessErr = "encoder/decoder round trip differs: " + d
		return out
	}
	if fsn := len(res.FreeSet()); fsn != len(info.Free) {
		out.HarnessErr = fmt.Sprintf("encoder says %d free pages, decoder %d", len(info.Free), fsn)
		return out
	}
	if err := os.WriteFile(pathB, img, 0600); err != nil {
		out.HarnessErr = err.Error()
		return out
	}
	out.probe("foreign-leaf-pages", info.Leaves)
	out.probe("foreign-branch-pages", info.Branches)
	out.probe("foreign-overflow-pages", info.Overflow)
	out.probe("foreign-inline-buckets", info.Inline)
	out.probe("foreign-free-pages", len(info.Free))
	if ex.Persist {
		out.probe("foreign-freelist-persisted", 1)
	} else {
		out.probe("foreign-freelist-absent", 1)
	}
	if res.Shape.MaxDepth >= 3 {
		out.probe("foreign-depth>=3", 1)
	}

	b := work.NewExec(pathB, cfg)
	b.Cur = content
	b.LastTxid = int(ex.Txid)
	b.Versions[int(ex.Txid)] = content
	b.FileChecks = true
	b.DeepCursor = true
	finished := false
	defer func() {
		if finished && b.DB != nil {
			_ = b.Close()
		}
	}()
	fail := func(class, f string, a ...any) {
		b.Viol = append(b.Viol, &work.Violation{Prop: "C12", Class: class, Msg: fmt.Sprintf(f, a...)})
	}
	if ex.ROFirst {
		ro := ex.Open
		ro.ReadOnly = true
		if err := b.Open(ro); err != nil {
			fail("foreign-open", "read-only Open of a valid version-2 file written by another writer: %v", err)
		} else {
			b.CheckContent("read-only open of the foreign file")
			b.CheckFile("read-only open of the foreign file")
			_ = b.Close()
			out.probe("foreign-read-only-open", 1)
		}
	}
	if !b.Failed() {
		if err := b.Open(ex.Open); err != nil {
			fail("foreign-open", "Open of a valid version-2 file written by another writer (page size %d, txid %d, freelist persisted=%v): %v", cfg.PageSize, ex.Txid, ex.Persist, err)
		} else {
			b.CheckContent("open of the foreign file")
			b.CheckFile("open of the foreign file")
		}
	}
	if !b.Failed() && len(c.Clients) > 0 {
		for i := range c.Clients[0] {
			Tick()
			b.RunStep(i, &c.Clients[0][i])
			if b.Failed() {
				break
			}
		}
	}
	if !b.Failed() {
		if err := b.Close(); err != nil {
			fail("close-error", "%v", err)
		}
	}
	finished = true
	foreignSpecific := true
	if b.Failed() && len(c.Clients) > 0 {
		// control: the same second history on the natively written file. If it fails there too the defect is
		// not about reading another writer's layout, and the violation stays with the property it names.
		ctl := work.NewExec(pathA, cfg)
		ctl.Cur = content
		ctl.LastTxid = a.LastTxid
		ctl.Versions[a.LastTxid] = content
		ctl.FileChecks = true
		ctl.DeepCursor = true
		func() {
			defer func() { _ = recover() }()
			if err := ctl.Open(ex.Open); err == nil {
				for i := range c.Clients[0] {
					ctl.RunStep(i, &c.Clients[0][i])
					if ctl.Failed() {
						break
					}
				}
				if ctl.DB != nil {
					_ = ctl.Close()
				}
			}
		}()
		if ctl.Failed() {
			foreignSpecific = false
			out.probe("failure-also-on-native-file", 1)
		}
	}
	for _, v := range b.Viol {
		if foreignSpecific && (v.Prop != "C12" || v.Class != "foreign-open") {
			v.Msg = v.Prop + "/" + v.Class + ": " + v.Msg
			v.Prop, v.Class = "C12", "foreign-file"
		}
	}
	out.Viol = b.Viol
	out.merge(b.Probes)
	out.Evals = 1
	out.Distinct = append(out.Distinct, mixHash(content.Hash(), uint64(info.Hwm), uint64(info.Leaves), uint64(info.Branches), uint64(len(info.Free)), ex.Txid))
	c.Tapes["order"] = append([]uint64(nil), order.Rec...)
	out.Sample = map[string]any{"run": c.Run, "cfg": cfg, "layout": ex, "hwm": info.Hwm, "leaves": info.Leaves, "branches": info.Branches, "overflow": info.Overflow, "free": len(info.Free)}
	return out
}

func (fs foreignsim) Shrinks(c *Case) []*Case {
	var ex foreignExtra
	_ = json.Unmarshal(c.Extra, &ex)
	var out []*Case
	// second history first
	if len(c.Clients) > 0 {
		st := c.Clients[0]
		for _, k := range []int{len(st), len(st) / 2, 1} {
			if k < 1 {
				continue
			}
			for a := 0; a+k <= len(st); a += k {
				d := c.Clone()
				d.Clients[0] = append(d.Clients[0][:a:a], d.Clients[0][a+k:]...)
				out = append(out, d)
			}
		}
	}
	emit := func(e2 foreignExtra) {
		d := c.Clone()
		d.Extra, _ = json.Marshal(e2)
		out = append(out, d)
	}
	if !ex.Plain {
		e2 := ex
		e2.Plain = true
		emit(e2)
	}
	for _, f := range []func(*foreignExtra) bool{
		func(e *foreignExtra) bool { ch := e.Scatter; e.Scatter = false; return ch },
		func(e *foreignExtra) bool { ch := e.GapData; e.GapData = false; return ch },
		func(e *foreignExtra) bool { ch := e.NeverInline; e.NeverInline = false; return ch },
		func(e *foreignExtra) bool { ch := e.Tail != 0; e.Tail = 0; return ch },
		func(e *foreignExtra) bool { ch := e.ROFirst; e.ROFirst = false; return ch },
		func(e *foreignExtra) bool { ch := !e.Persist; e.Persist = true; return ch },
	} {
		e2 := ex
		if f(&e2) {
			emit(e2)
		}
	}
	out = append(out, shrinkProgram(c)...)
	return out
}
