package props

import (
	"encoding/json"
	"fmt"
	"os"
	"os/exec"
	"path/filepath"
	"runtime"
	"runtime/debug"
	"sort"
	"strings"
	"sync/atomic"
	"testing"
	"time"

	"go.etcd.io/bbolt/xverif/sim"
	"go.etcd.io/bbolt/xverif/work"
)

var curCase atomic.Pointer[Case]

// safeRun executes one case, converting panics and memory faults inside the
// code under test into violations of the case's property.
func safeRun(e Engine, c *Case, dir string) (out *Outcome) {
	curCase.Store(c)
	runStart.Store(time.Now().UnixNano())
	defer runStart.Store(0)
	defer JournalDone()
	defer func() {
		if r := recover(); r != nil {
			sim.Uninstall()
			out = &Outcome{Evals: 1}
			st := string(debug.Stack())
			origin := panicOrigin(st)
			if len(st) > 4000 {
				st = st[:4000]
			}
			out.Trace = []string{st}
			if strings.HasPrefix(origin, "go.etcd.io/bbolt/xverif/") {
				out.HarnessErr = fmt.Sprintf("panic in harness code (%s): %v", origin, r)
				return
			}
			out.Viol = append(out.Viol, &work.Violation{Prop: c.Prop, Class: "panic:" + shortFunc(origin), Msg: fmt.Sprintf("panic in code under test (%s): %v", origin, r)})
		}
	}()
	return e.Run(c, dir)
}

// panicOrigin returns the function that raised the panic: the first frame
// below the runtime's panic machinery.
func panicOrigin(stack string) string {
	lines := strings.Split(stack, "\n")
	seenPanic := false
	for _, l := range lines {
		if strings.HasPrefix(l, "\t") || l == "" {
			continue
		}
		fn := l
		if i := strings.LastIndex(fn, "("); i > 0 {
			fn = fn[:i]
		}
		if strings.HasPrefix(fn, "panic") || strings.HasPrefix(fn, "runtime.gopanic") {
			seenPanic = true
			continue
		}
		if !seenPanic || strings.HasPrefix(fn, "runtime.") {
			continue
		}
		return fn
	}
	return "unknown"
}

func shortFunc(fn string) string {
	if i := strings.LastIndex(fn, "/"); i >= 0 {
		fn = fn[i+1:]
	}
	return fn
}

func writeJSON(path string, v any) {
	b, _ := json.MarshalIndent(v, "", " ")
	_ = os.WriteFile(path, b, 0644)
}

func TestWorker(t *testing.T) {
	specPath := os.Getenv("VERIF_SPEC")
	if specPath == "" {
		t.Skip("worker entry point; run through vcheck")
	}
	curT = t
	debug.SetPanicOnFault(true)
	var sp Spec
	b, err := os.ReadFile(specPath)
	if err == nil {
		err = json.Unmarshal(b, &sp)
	}
	if err != nil {
		fmt.Println("HARNESS-ERROR bad spec:", err)
		os.Exit(2)
	}
	info := Lookup(sp.Prop)
	if info == nil {
		fmt.Println("HARNESS-ERROR unknown property", sp.Prop)
		os.Exit(2)
	}
	journalDir, journalID = sp.OutDir, sp.ID
	dir := filepath.Join(sp.OutDir, fmt.Sprintf("w%d", sp.ID))
	_ = os.MkdirAll(dir, 0755)
	defer os.RemoveAll(dir)
	res := &Result{ID: sp.ID, Probes: map[string]int{}, Faults: map[string]int{}, OtherProps: map[string]int{}}
	resPath := filepath.Join(sp.OutDir, fmt.Sprintf("result-%d.json", sp.ID))
	start := time.Now()

	// watchdog: a run that makes no progress in real time is either a hang in
	// the code under test (reported, with the case, as class "hang") or
	// harness trouble; never silently ignored.
	stuck := time.Duration(sp.StuckS) * time.Second
	if stuck == 0 {
		stuck = 30 * time.Second
	}
	go func() {
		for {
			time.Sleep(200 * time.Millisecond)
			st := runStart.Load()
			if st == 0 || time.Since(time.Unix(0, st)) < stuck {
				continue
			}
			c := curCase.Load()
			phase := work.Phase.Load()
			p := filepath.Join(sp.OutDir, fmt.Sprintf("viol-%d-hang.json", sp.ID))
			if c != nil {
				cc := *c
				pos := work.Pos.Load()
				cc.Violation = &work.Violation{Prop: c.Prop, Class: "hang", Step: int(pos >> 32), Op: int(pos & 0xffffffff),
					Msg: fmt.Sprintf("run did not finish within %v of real time (phase %q, step %d op %d)", stuck, phase, pos>>32, pos&0xffffffff)}
				if phase == "cursor" {
					cc.Violation.Prop = "C05"
					cc.Violation.Msg = "a cursor call did not return: " + cc.Violation.Msg
				} else if c.Prop == "C05" {
					cc.Violation.Prop = "C04"
				}
				buf := make([]byte, 1<<18)
				buf = buf[:runtime.Stack(buf, true)]
				cc.Trace = append(cc.Trace, string(buf))
				_ = SaveCase(p, &cc)
				res.Violations = append(res.Violations, ViolRec{Prop: cc.Violation.Prop, Class: "hang", Msg: cc.Violation.Msg, Path: p, Run: c.Run})
			}
			res.WallS = time.Since(start).Seconds()
			writeJSON(resPath, res)
			os.Exit(3)
		}
	}()

	switch sp.Mode {
	case "replay":
		c, err := LoadCase(sp.Replay)
		if err != nil {
			fmt.Println("HARNESS-ERROR", err)
			os.Exit(2)
		}
		var out *Outcome
		if c.Engine == "golden" {
			out = goldenCheck(dir)
		} else {
			out = safeRun(Lookup(c.Prop).Engine, c, dir)
		}
		res.Runs, res.Evals = 1, out.Evals
		if out.HarnessErr != "" {
			res.HarnessErrs = append(res.HarnessErrs, out.HarnessErr)
		}
		if os.Getenv("VERIF_TRACE") != "" {
			for _, t := range out.Trace {
				fmt.Println(t)
			}
			for _, v := range out.Viol {
				fmt.Println("ALL-VIOLATIONS:", v.String())
			}
		}
		for _, v := range out.Viol {
			if v.Prop == c.Prop {
				res.Violations = append(res.Violations, ViolRec{Prop: v.Prop, Class: v.Class, Msg: v.Msg, Path: sp.Replay, Run: c.Run})
				if c.Violation == nil || (c.Violation.Class == v.Class) {
					res.Reproduced = true
				}
			}
		}
	case "shrink":
		c, err := LoadCase(sp.Replay)
		if err != nil {
			fmt.Println("HARNESS-ERROR", err)
			os.Exit(2)
		}
		eng := Lookup(c.Prop).Engine
		if c.Violation != nil && c.Violation.Class == "hang" {
			best, used := shrinkHang(eng, c, &sp, dir)
			p := sp.Replay + ".min.json"
			if best.Prog != nil {
				best.Trace = best.Prog.Describe(60)
			}
			_ = SaveCase(p, best)
			res.ShrinkRuns = used
			res.Reproduced = true
			res.Violations = append(res.Violations, ViolRec{Prop: best.Violation.Prop, Class: "hang", Msg: best.Violation.Msg, Path: p, Run: c.Run})
			break
		}
		out := safeRun(eng, c, dir)
		var v *work.Violation
		for _, x := range out.Viol {
			if x.Prop == c.Prop && (c.Violation == nil || x.Class == c.Violation.Class) {
				v = x
				break
			}
		}
		if v == nil {
			res.HarnessErrs = append(res.HarnessErrs, "violation did not reproduce before shrinking")
			break
		}
		best, bv, used := shrinkSafe(eng, c, v, dir, sp.ShrinkBudget, time.UnixMilli(sp.DeadlineMS))
		best.Violation = bv
		if best.Prog != nil {
			best.Trace = best.Prog.Describe(60)
		}
		p := sp.Replay + ".min.json"
		_ = SaveCase(p, best)
		res.ShrinkRuns = used
		res.Reproduced = true
		res.Violations = append(res.Violations, ViolRec{Prop: bv.Prop, Class: bv.Class, Msg: bv.Msg, Path: p, Run: c.Run})
	default:
		eng := info.Engine
		deadline := time.UnixMilli(sp.DeadlineMS)
		deadlineNS.Store(deadline.Add(20 * time.Second).UnixNano())
		seen := map[uint64]bool{}
		seenI := map[uint64]bool{}
		maxViol := sp.MaxViol
		if maxViol == 0 {
			maxViol = 3
		}
		if sp.Prop == "C12" && sp.ID == 0 {
			// the golden corpus is verified once per check invocation
			g := goldenCheck(dir)
			res.Evals += g.Evals
			for k, v := range g.Probes {
				res.Probes[k] += v
			}
			res.Distinct = append(res.Distinct, g.Distinct...)
			if g.HarnessErr != "" {
				res.HarnessErrs = append(res.HarnessErrs, g.HarnessErr)
			}
			for i, v := range g.Viol {
				p := filepath.Join(sp.OutDir, fmt.Sprintf("viol-golden-%d.json", i))
				gc := &Case{Prop: "C12", Engine: "golden", Violation: v}
				_ = SaveCase(p, gc)
				res.Violations = append(res.Violations, ViolRec{Prop: "C12", Class: "golden", Msg: v.Msg, Path: p})
				break
			}
		}
		for run := sp.First; ; run += sp.Stride {
			if sp.MaxRuns > 0 && res.Runs >= sp.MaxRuns {
				break
			}
			if res.Runs > 0 && time.Now().After(deadline) {
				break
			}
			ts := sim.NewTapes(sp.Seed, run)
			c := eng.Gen(sp.Prop, sp.Tier, ts)
			if sp.JournalAll {
				Journal(c, fmt.Sprintf("run %d", run))
			}
			out := safeRun(eng, c, dir)
			res.Runs++
			if os.Getenv("VERIF_DIGEST") != "" {
				if res.Digests == nil {
					res.Digests = map[string]uint64{}
				}
				res.Digests[fmt.Sprint(run)] = digest(out)
			}
			res.Evals += out.Evals
			res.SimTimeNS += out.SimTimeNS
			res.Decisions += out.Decisions
			for k, v := range out.Probes {
				res.Probes[k] += v
			}
			for k, v := range out.Faults {
				res.Faults[k] += v
			}
			for _, h := range out.Distinct {
				if !seen[h] {
					seen[h] = true
					res.Distinct = append(res.Distinct, h)
				}
			}
			for _, h := range out.Interleaved {
				if !seenI[h] {
					seenI[h] = true
					res.Interleaved = append(res.Interleaved, h)
				}
			}
			if out.HarnessErr != "" {
				if len(res.HarnessErrs) < 5 {
					res.HarnessErrs = append(res.HarnessErrs, fmt.Sprintf("run %d: %s", run, out.HarnessErr))
				}
				continue
			}
			if len(res.Samples) < 2 && out.Sample != nil {
				res.Samples = append(res.Samples, out.Sample)
			} else if len(res.Samples) < 2 && c.Prog != nil && len(out.Viol) == 0 && res.Runs%7 == 3 {
				res.Samples = append(res.Samples, map[string]any{"run": run, "cfg": c.Prog.Cfg, "steps": c.Prog.Describe(6)})
			}
			reported := false
			for _, v := range out.Viol {
				if v.Prop != sp.Prop {
					res.OtherProps[v.Prop+"/"+v.Class]++
					continue
				}
				if reported {
					continue
				}
				reported = true
				c.Violation = v
				c.Trace = out.Trace
				p := filepath.Join(sp.OutDir, fmt.Sprintf("viol-%d-%d.json", sp.ID, len(res.Violations)))
				_ = SaveCase(p, c)
				res.Violations = append(res.Violations, ViolRec{Prop: v.Prop, Class: v.Class, Msg: v.Msg, Path: p, Run: run})
			}
			if len(res.Violations) >= maxViol {
				break
			}
		}
	}
	res.WallS = time.Since(start).Seconds()
	writeJSON(resPath, res)
}

// shrinkSafe is Shrink with panics in candidate runs treated as "not the
// same violation" unless the original was a panic.
func shrinkSafe(e Engine, c *Case, v *work.Violation, dir string, budget int, deadline time.Time) (*Case, *work.Violation, int) {
	best, bestV := c, v
	used := 0
	for improved := true; improved && used < budget && time.Now().Before(deadline); {
		improved = false
		for _, cand := range e.Shrinks(best) {
			if used >= budget || time.Now().After(deadline) {
				break
			}
			used++
			out := safeRun(e, cand, dir)
			if out.HarnessErr != "" {
				continue
			}
			var hit *work.Violation
			for _, x := range out.Viol {
				if x.Prop == v.Prop && x.Class == v.Class {
					hit = x
					break
				}
			}
			if hit != nil {
				best, bestV = cand, hit
				improved = true
				break
			}
		}
	}
	return best, bestV, used
}

// hangs runs a candidate in a child process with a short watchdog and
// reports whether it hung (exit status 3).
func hangs(c *Case, sp *Spec, dir string, n int) bool {
	cp := filepath.Join(dir, fmt.Sprintf("hang-cand-%d.json", n))
	if err := SaveCase(cp, c); err != nil {
		return false
	}
	defer os.Remove(cp)
	sub := *sp
	sub.Mode, sub.Replay, sub.StuckS, sub.ID = "replay", cp, 3, 9000+n
	specPath := filepath.Join(dir, fmt.Sprintf("hang-spec-%d.json", n))
	b, _ := json.Marshal(&sub)
	_ = os.WriteFile(specPath, b, 0644)
	defer os.Remove(specPath)
	cmd := exec.Command(os.Args[0], "-test.run", "^TestWorker$", "-test.timeout", "0")
	cmd.Env = append(os.Environ(), "VERIF_SPEC="+specPath)
	err := cmd.Run()
	if ee, ok := err.(*exec.ExitError); ok {
		return ee.ExitCode() == 3
	}
	return false
}

// shrinkHang minimises a case whose violation is a hang: first cut
// everything after the hanging op, then the usual structural candidates,
// each tried in a child process.
func shrinkHang(e Engine, c *Case, sp *Spec, dir string) (*Case, int) {
	best := c
	used := 0
	deadline := time.UnixMilli(sp.DeadlineMS)
	if c.Prog != nil && c.Violation != nil && c.Violation.Step < len(c.Prog.Steps) {
		d := c.Clone()
		d.Prog.Steps = d.Prog.Steps[:c.Violation.Step+1]
		if st := &d.Prog.Steps[len(d.Prog.Steps)-1]; st.Tx != nil && c.Violation.Op < len(st.Tx.Ops) {
			st.Tx.Ops = st.Tx.Ops[:c.Violation.Op+1]
		}
		used++
		if hangs(d, sp, dir, used) {
			best = d
		}
	}
	for improved := true; improved && time.Now().Before(deadline); {
		improved = false
		for _, cand := range e.Shrinks(best) {
			if time.Now().After(deadline) {
				break
			}
			used++
			if hangs(cand, sp, dir, used) {
				cand.Violation = best.Violation
				best = cand
				improved = true
				break
			}
		}
	}
	return best, used
}

// digest folds everything a run observed into one number.
func digest(o *Outcome) uint64 {
	h := mixHash(uint64(o.Evals), uint64(o.Decisions), uint64(len(o.Viol)), uint64(len(o.Distinct)))
	ds := append([]uint64(nil), o.Distinct...)
	sort.Slice(ds, func(i, j int) bool { return ds[i] < ds[j] })
	for _, d := range ds {
		h = mixHash(h, d)
	}
	for _, d := range o.Interleaved {
		h = mixHash(h, d)
	}
	keys := make([]string, 0, len(o.Probes)+len(o.Faults))
	for k, v := range o.Probes {
		keys = append(keys, fmt.Sprintf("p:%s=%d", k, v))
	}
	for k, v := range o.Faults {
		keys = append(keys, fmt.Sprintf("f:%s=%d", k, v))
	}
	sort.Strings(keys)
	for _, k := range keys {
		h = mixHash(h, hashStr(k))
	}
	for _, v := range o.Viol {
		h = mixHash(h, hashStr(v.Prop+v.Class+v.Msg))
	}
	if o.HarnessErr != "" {
		h = mixHash(h, hashStr(o.HarnessErr))
	}
	return h
}
