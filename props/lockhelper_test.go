package props

import (
	"bufio"
	"errors"
	"fmt"
	"os"
	"strings"
	"testing"
	"time"

	bolt "go.etcd.io/bbolt"
	berrors "go.etcd.io/bbolt/errors"
)

// TestLockHelper is a child process of the C17 process arm: it executes
// "open rw|ro <timeout_ms> <path>" and "close" commands from stdin and
// answers each with a line "R ok|timeout|<error>".
func TestLockHelper(t *testing.T) {
	if os.Getenv("VERIF_LOCK_HELPER") == "" {
		t.Skip("helper process of the C17 process arm")
	}
	var db *bolt.DB
	sc := bufio.NewScanner(os.Stdin)
	for sc.Scan() {
		f := strings.Fields(sc.Text())
		if len(f) == 0 {
			continue
		}
		switch f[0] {
		case "open":
			var ms int
			fmt.Sscan(f[2], &ms)
			d, err := bolt.Open(f[3], 0600, &bolt.Options{ReadOnly: f[1] == "ro", Timeout: time.Duration(ms) * time.Millisecond})
			switch {
			case err == nil:
				db = d
				fmt.Println("R ok")
			case errors.Is(err, berrors.ErrTimeout):
				fmt.Println("R timeout")
			default:
				fmt.Println("R error:", err)
			}
		case "close":
			if db == nil {
				fmt.Println("R error: not open")
				continue
			}
			if err := db.Close(); err != nil {
				fmt.Println("R error:", err)
			} else {
				fmt.Println("R ok")
			}
			db = nil
		}
	}
	if db != nil {
		_ = db.Close()
	}
}
