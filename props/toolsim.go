package props

import (
	"encoding/json"
	"fmt"
	"os"
	"path/filepath"
	"sort"

	bolt "go.etcd.io/bbolt"
	"go.etcd.io/bbolt/xverif/dec"
	"go.etcd.io/bbolt/xverif/model"
	"go.etcd.io/bbolt/xverif/sim"
	"go.etcd.io/bbolt/xverif/work"
)

// toolsim: compaction (C15), repair commands (C20) and option schedules (C13)
// over files produced by seeded histories. No fault or schedule dimension:
// the fault-free arm of the simulator supplies the source population.
type toolsim struct{ kind string }

func (t toolsim) Name() string { return t.kind }

func genHistory(ts *sim.Tapes, prop, tier string, reopen bool) (*work.Program, work.Config) {
	cfg := work.GenConfig(ts.Get("cfg"))
	cfg.StrictMode, cfg.Mlock = false, false
	cfg.InitialMmapSize = 0
	p := work.GenParams{MaxSteps: 8, MaxOps: 30, NoErrors: true, Reopen: reopen, Guards: ActiveGuards()}
	if tier == "thorough" {
		p.MaxSteps, p.MaxOps = 20, 60
	}
	sw := ts.Get("swarm")
	switch sw.Pick(3, 2, 1) {
	case 1:
		p.BucketHeavy = true
	case 2:
		p.NoBigValues = true
	}
	prog := work.GenProgram(ts, cfg, p)
	last := &work.Txn{Mode: "update", End: "commit", Ops: []work.Op{
		{Kind: "mkbi", Key: "last"}, {Kind: "nextseq", Path: []string{"last"}}}}
	if sw.Chance(1, 3) {
		// a top-level bucket whose name is the path of an existing nested bucket joined by a separator
		// (tools that flatten bucket paths into strings must not confuse the two)
		m := work.FinalModel(prog)
		done := false
		for _, k1 := range m.Keys() {
			if e1 := m.M[k1]; e1.B != nil && !done {
				for _, k2 := range e1.B.Keys() {
					if e2 := e1.B.M[k2]; e2.B != nil {
						for i, sep := range []string{"/", "\x00", "."} {
							name := k1 + sep + k2
							last.Ops = append(last.Ops, work.Op{Kind: "mkbi", Key: name},
								work.Op{Kind: "put", Path: []string{name}, Key: "joined-name", VLen: 5 + i, VTag: uint32(830000 + i)},
								work.Op{Kind: "put", Path: []string{k1, k2}, Key: "nested-path", VLen: 9 + i, VTag: uint32(831000 + i)})
						}
						done = true
						break
					}
				}
			}
		}
	}
	prog.Steps = append(prog.Steps, work.Step{Kind: "tx", Tx: last})
	return prog, cfg
}

// buildFile executes the history at path and leaves the closed file there.
func buildFile(c *Case, path string, out *Outcome) (*work.Exec, bool) {
	os.Remove(path)
	order := sim.NewTape(c.Seed, c.Run, "order")
	w := &sim.World{MapOrder: c.Prog.Cfg.MapOrder, Order: order}
	w.Install()
	defer sim.Uninstall()
	e := work.NewExec(path, c.Prog.Cfg)
	e.FileChecks = true
	if err := e.Open(e.DefaultOpts()); err != nil {
		out.HarnessErr = err.Error()
		return nil, false
	}
	for i := range c.Prog.Steps {
		e.RunStep(i, &c.Prog.Steps[i])
		if e.Failed() {
			out.Viol = e.Viol
			_ = e.Close()
			return nil, false
		}
	}
	if err := e.Close(); err != nil {
		out.HarnessErr = err.Error()
		return nil, false
	}
	out.merge(e.Probes)
	return e, true
}

// openAndVerify opens path read-write with the real code and checks content,
// integrity and accounting against want.
func openAndVerify(path string, cfg work.Config, want *model.Bucket, prop, what string, fail func(class, f string, a ...any)) {
	data, err := os.ReadFile(path)
	if err != nil {
		fail("output-missing", "%s: %v", what, err)
		return
	}
	im, err := dec.Load(data)
	if err != nil {
		fail("output-undecodable", "%s: %v", what, err)
		return
	}
	wi, ok := im.Winner()
	if !ok {
		fail("output-undecodable", "%s: no valid meta", what)
		return
	}
	res := im.Decode(wi)
	if res.Fatal != "" || !res.Clean() {
		fail("output-accounting", "%s: %s", what, res.ProblemString())
		return
	}
	if d := model.Diff(res.Root, want); d != "" {
		fail("output-content", "%s: decoded content differs: %s", what, d)
		return
	}
	db, err := bolt.Open(path, 0600, &bolt.Options{ReadOnly: true})
	if err != nil {
		fail("output-open", "%s: Open: %v", what, err)
		return
	}
	defer db.Close()
	e := work.NewExec(path, cfg)
	_ = db.View(func(tx *bolt.Tx) error {
		if d := model.Diff(e.Dump(tx), want); d != "" {
			fail("output-content", "%s: content differs: %s", what, d)
		}
		for cerr := range tx.Check() {
			fail("output-check", "%s: Tx.Check: %v", what, cerr)
			break
		}
		return nil
	})
}

// ---------------------------------------------------------------------------
// C15

func (t toolsim) Gen(prop, tier string, ts *sim.Tapes) *Case {
	switch t.kind {
	case "optsim":
		return t.genOpt(prop, tier, ts)
	}
	prog, _ := genHistory(ts, prop, tier, true)
	c := &Case{Prop: prop, Engine: t.kind, Tier: tier, Seed: ts.Seed, Run: ts.Run, Prog: prog, Tapes: map[string][]uint64{}, Params: map[string]int{}}
	if t.kind == "repairsim" && ts.Run%23 == 4 && ts.Run%2 == 0 {
		// big-file scenario: more than one allocation step (16 MiB) of data with the default AllocSize, so that the
		// file carries a whole preallocated step beyond its high-water mark; a few small commits afterwards vary
		// which meta slot is the active one
		bt := ts.Get("bigfile")
		cfg := prog.Cfg
		cfg.AllocSize, cfg.InitialMmapSize, cfg.Mlock, cfg.StrictMode = 0, 0, false, false
		cfg.PageSize = []int{4096, 1024, 16384}[bt.Pick(2, 1, 1)]
		big := &work.Txn{Mode: "update", End: "commit", Ops: []work.Op{{Kind: "mkb", Key: "big"}}}
		for i := 0; i < 17+bt.Intn(3); i++ {
			big.Ops = append(big.Ops, work.Op{Kind: "put", Path: []string{"big"}, Key: fmt.Sprintf("blob%02d", i), VLen: 1 << 20, VTag: uint32(800000 + i)})
		}
		steps := []work.Step{{Kind: "tx", Tx: big}}
		for i := 0; i < bt.Intn(4); i++ {
			steps = append(steps, work.Step{Kind: "tx", Tx: &work.Txn{Mode: "update", End: "commit", Ops: []work.Op{
				{Kind: "put", Path: []string{"big"}, Key: fmt.Sprintf("more%02d", i), VLen: 200000 + 1000*i, VTag: uint32(810000 + i)}}}})
		}
		// the last commit raises the high-water mark as well (the two meta pages then disagree about it)
		steps = append(steps, work.Step{Kind: "tx", Tx: &work.Txn{Mode: "update", End: "commit", Ops: []work.Op{
			{Kind: "mkbi", Key: "last"}, {Kind: "nextseq", Path: []string{"last"}},
			{Kind: "put", Path: []string{"last"}, Key: "tail", VLen: 300000, VTag: 820000}}}})
		c.Prog = &work.Program{Cfg: cfg, Steps: steps}
		c.Params["bigfile"] = 1
	}
	if t.kind == "compactsim" && ts.Get("swarm").Chance(1, 4) {
		// the source is the history's content laid out by the independent encoder (a valid version-2 file the
		// current writer would not produce: sparse pages, scattered ids, gaps, paged small buckets)
		c.Params["foreign"] = 1
	}
	return c
}

// relayForeign replaces the closed file at path by the same content laid out by dec/enc.go.
func relayForeign(c *Case, path string, e *work.Exec, out *Outcome) bool {
	lay := sim.NewTape(c.Seed, c.Run, "layout")
	img, _ := dec.Encode(e.Cur, dec.EncOpts{PageSize: c.Prog.Cfg.PageSize, Txid: uint64(e.LastTxid), PersistFreelist: lay.Chance(2, 3),
		Scatter: lay.Chance(2, 3), GapData: lay.Chance(1, 3), NeverInline: lay.Chance(1, 5), Choose: func(n int) int { return lay.Intn(n) }})
	ok := false
	if im, err := dec.Load(img); err == nil {
		if wi, w := im.Winner(); w {
			r := im.Decode(wi)
			ok = r.Clean() && model.Diff(r.Root, e.Cur) == ""
		}
	}
	if !ok {
		out.HarnessErr = "encoder output rejected by the decoder"
		return false
	}
	if err := os.WriteFile(path, img, 0600); err != nil {
		out.HarnessErr = err.Error()
		return false
	}
	out.probe("foreign-layout-source", 1)
	return true
}

func (t toolsim) Run(c *Case, dir string) *Outcome {
	out := &Outcome{}
	switch t.kind {
	case "compactsim":
		t.runCompact(c, dir, out)
	case "repairsim":
		t.runRepair(c, dir, out)
	case "optsim":
		t.runOpt(c, dir, out)
	}
	return out
}

func (t toolsim) Shrinks(c *Case) []*Case {
	var out []*Case
	for _, d := range shrinkProgram(c) {
		if n := len(d.Prog.Steps); n > 0 && d.Prog.Steps[n-1].Kind == "tx" && d.Prog.Steps[n-1].Tx.End == "commit" {
			out = append(out, d)
		}
	}
	return out
}

func (t toolsim) runCompact(c *Case, dir string, out *Outcome) {
	src := filepath.Join(dir, "csrc")
	dst := filepath.Join(dir, "cdst")
	defer os.Remove(src)
	defer os.Remove(dst)
	e, ok := buildFile(c, src, out)
	if !ok {
		return
	}
	if c.Params["foreign"] == 1 && !relayForeign(c, src, e, out) {
		return
	}
	fail := func(class, f string, a ...any) {
		if len(out.Viol) < 5 {
			out.Viol = append(out.Viol, &work.Violation{Prop: "C15", Class: class, Msg: fmt.Sprintf(f, a...)})
		}
	}
	want := e.Cur
	before := fileHash(src)
	tp := sim.NewTape(c.Seed, c.Run, "compact")
	// limits: 0 (no limit), 1, 2, small primes, sizes that fall inside nested buckets, 64 KiB, huge
	limits := []int64{0, 1, 2, 7, 13, 97, 65536, 1 << 40}
	for k := 0; k < 4; k++ {
		limits = append(limits, int64(20+tp.Intn(5000)))
	}
	sort.Slice(limits, func(i, j int) bool { return limits[i] < limits[j] })
	for li, lim := range limits {
		Tick()
		if len(out.Viol) > 0 {
			break
		}
		out.Evals++
		os.Remove(dst)
		what := fmt.Sprintf("Compact with txMaxSize=%d", lim)
		if li%2 == 0 {
			// library
			sdb, err := bolt.Open(src, 0600, &bolt.Options{ReadOnly: true})
			if err != nil {
				out.HarnessErr = err.Error()
				return
			}
			ddb, err := bolt.Open(dst, 0600, &bolt.Options{PageSize: c.Prog.Cfg.PageSize})
			if err != nil {
				_ = sdb.Close()
				out.HarnessErr = err.Error()
				return
			}
			err = bolt.Compact(ddb, sdb, lim)
			_ = sdb.Close()
			cerr := ddb.Close()
			if err != nil || cerr != nil {
				fail("compact-error", "%s: %v %v", what, err, cerr)
				break
			}
			out.probe("compact-library", 1)
		} else {
			what = "bbolt compact --tx-max-size " + fmt.Sprint(lim)
			if o, err := runCLI("compact", "-o", dst, "--tx-max-size", fmt.Sprint(lim), src); err != nil {
				fail("cli-error", "%s failed: %v (%s)", what, err, firstLine(o))
				break
			}
			out.probe("compact-cli", 1)
		}
		openAndVerify(dst, c.Prog.Cfg, want, "C15", what, fail)
		if fileHash(src) != before {
			fail("source-changed", "%s modified the source file", what)
		}
		out.Distinct = append(out.Distinct, mixHash(want.Hash(), uint64(lim), c.Run))
	}
	out.probe("source-nesting-depth", want.Depth())
	out.Sample = map[string]any{"run": c.Run, "cfg": c.Prog.Cfg, "source": want.Summary(), "limits": limits}
}

// ---------------------------------------------------------------------------
// C20

func (t toolsim) runRepair(c *Case, dir string, out *Outcome) {
	src := filepath.Join(dir, "rsrc")
	o1 := filepath.Join(dir, "rout1")
	o2 := filepath.Join(dir, "rout2")
	for _, p := range []string{src, o1, o2} {
		defer os.Remove(p)
	}
	e, ok := buildFile(c, src, out)
	if !ok {
		return
	}
	fail := func(class, f string, a ...any) {
		if len(out.Viol) < 5 {
			out.Viol = append(out.Viol, &work.Violation{Prop: "C20", Class: class, Msg: fmt.Sprintf(f, a...)})
		}
	}
	want := e.Cur
	if c.Params["bigfile"] == 1 {
		if fi, err := os.Stat(src); err == nil {
			out.probe("bigfile-source-MiB", int(fi.Size()>>20))
		}
	}
	// every other source is a hot backup of the history's end state (Tx.CopyFile):
	// a valid database whose meta slots do not follow the txid parity of commits
	fromBackup := c.Run%2 == 1
	if fromBackup {
		bk := filepath.Join(dir, "rbackup")
		os.Remove(bk)
		db, err := bolt.Open(src, 0600, &bolt.Options{ReadOnly: true})
		if err != nil {
			out.HarnessErr = err.Error()
			return
		}
		cerr := db.View(func(tx *bolt.Tx) error { return tx.CopyFile(bk, 0600) })
		_ = db.Close()
		if cerr != nil {
			out.HarnessErr = cerr.Error()
			return
		}
		if err := os.Rename(bk, src); err != nil {
			out.HarnessErr = err.Error()
			return
		}
		out.probe("source-is-hot-backup", 1)
	}
	before := fileHash(src)
	listDir := func() []string {
		ents, _ := os.ReadDir(dir)
		var n []string
		for _, en := range ents {
			n = append(n, en.Name())
		}
		sort.Strings(n)
		return n
	}
	freeEqualsUnreachable := func(path, what string) {
		data, err := os.ReadFile(path)
		if err != nil {
			return
		}
		im, err := dec.Load(data)
		if err != nil {
			fail("output-undecodable", "%s: %v", what, err)
			return
		}
		for mi := 0; mi < 2; mi++ {
			if !im.Metas[mi].Valid {
				fail("output-meta", "%s: meta %d invalid (%s)", what, mi, im.Metas[mi].Why)
				return
			}
		}
		wi, _ := im.Winner()
		res := im.Decode(wi)
		if res.Fatal != "" || !res.Clean() {
			fail("output-accounting", "%s: %s", what, res.ProblemString())
			return
		}
		// free pages are exactly the unreachable pages
		free := res.FreeSet()
		for id := uint64(2); id < res.Meta.Pgid; id++ {
			isFL := false
			for _, f := range res.FreelistPages {
				if f == id {
					isFL = true
				}
			}
			unreach := res.Reach[id] == 0 && !isFL
			if free[id] != unreach {
				fail("free-set", "%s: page %d free=%v but unreachable=%v", what, id, free[id], unreach)
				return
			}
		}
	}
	// abandon
	out.Evals++
	os.Remove(o1)
	if o, err := runCLI("surgery", "freelist", "abandon", src, "--output", o1); err != nil {
		fail("cli-error", "surgery freelist abandon: %v (%s)", err, firstLine(o))
		return
	}
	if fileHash(src) != before {
		fail("source-changed", "surgery freelist abandon modified its source")
	}
	if data, err := os.ReadFile(o1); err == nil {
		if im, err := dec.Load(data); err == nil {
			srcData, _ := os.ReadFile(src)
			sim0, _ := dec.Load(srcData)
			for mi := 0; mi < 2; mi++ {
				if im.Metas[mi].Valid && im.Metas[mi].Freelist != dec.NoFreelist {
					fail("not-abandoned", "after abandon meta %d still points to freelist page %d", mi, im.Metas[mi].Freelist)
				}
				if sim0 != nil && sim0.Metas[mi].Valid && (!im.Metas[mi].Valid || im.Metas[mi].Txid != sim0.Metas[mi].Txid || im.Metas[mi].Root != sim0.Metas[mi].Root) {
					fail("abandon-changed-meta", "abandon changed more than the freelist pointer of meta %d (txid %d -> %d, root %d -> %d, valid=%v)", mi, sim0.Metas[mi].Txid, im.Metas[mi].Txid, sim0.Metas[mi].Root, im.Metas[mi].Root, im.Metas[mi].Valid)
				}
			}
		}
	}
	openAndVerify(o1, c.Prog.Cfg, want, "C20", "output of surgery freelist abandon", fail)
	freeEqualsUnreachable(o1, "output of surgery freelist abandon")
	out.probe("abandon", 1)
	// rebuild (after abandon)
	if len(out.Viol) == 0 {
		out.Evals++
		h1 := fileHash(o1)
		os.Remove(o2)
		if o, err := runCLI("surgery", "freelist", "rebuild", o1, "--output", o2); err != nil {
			fail("cli-error", "surgery freelist rebuild: %v (%s)", err, firstLine(o))
		} else {
			if fileHash(o1) != h1 {
				fail("source-changed", "surgery freelist rebuild modified its source")
			}
			if data, err := os.ReadFile(o2); err == nil {
				if im, err := dec.Load(data); err == nil {
					if wi, ok := im.Winner(); ok && im.Metas[wi].Freelist == dec.NoFreelist {
						fail("not-rebuilt", "after rebuild the active meta has no freelist")
					}
				}
			}
			openAndVerify(o2, c.Prog.Cfg, want, "C20", "output of surgery freelist rebuild", fail)
			freeEqualsUnreachable(o2, "output of surgery freelist rebuild")
			out.probe("rebuild", 1)
		}
	}
	// revert-meta-page directly after the last commit
	if len(out.Viol) == 0 {
		out.Evals++
		prev := e.Versions[e.LastTxid-1]
		if fromBackup {
			prev = want // both meta pages of a copy describe the same tree
		}
		os.Remove(o2)
		if o, err := runCLI("surgery", "revert-meta-page", src, "--output", o2); err != nil {
			fail("cli-error", "surgery revert-meta-page: %v (%s)", err, firstLine(o))
		} else if prev == nil {
			out.probe("revert-no-previous-version-known", 1)
		} else {
			if fileHash(src) != before {
				fail("source-changed", "surgery revert-meta-page modified its source")
			}
			openAndVerify(o2, c.Prog.Cfg, prev, "C20", fmt.Sprintf("output of surgery revert-meta-page (expected state: txid %d)", e.LastTxid-1), fail)
			out.probe("revert", 1)
			if model.Diff(prev, want) != "" {
				out.probe("revert-changes-content", 1)
			}
		}
	}
	// nothing else in the directory was touched
	for _, n := range listDir() {
		switch n {
		case "rsrc", "rout1", "rout2":
		default:
			fail("stray-file", "a repair command left %q in the directory", n)
		}
	}
	out.Distinct = append(out.Distinct, mixHash(want.Hash(), uint64(e.LastTxid), c.Run))
	out.Sample = map[string]any{"run": c.Run, "cfg": c.Prog.Cfg, "content": want.Summary(), "history": c.Prog.Describe(3)}
}

// ---------------------------------------------------------------------------
// C13

type optExtra struct {
	Schedules [][]work.OpenOpts `json:"schedules"` // per schedule: options of every Open, in order
	PageSizes []int             `json:"page_sizes"`
	ROPass    [][]int           `json:"ro_pass"` // per schedule, per reopen: 0 none, 1 read-only without preload, 2 with preload
}

func (t toolsim) genOpt(prop, tier string, ts *sim.Tapes) *Case {
	prog, cfg := genHistory(ts, prop, tier, true)
	tp := ts.Get("opts")
	nopen := 1
	for _, s := range prog.Steps {
		if s.Kind == "reopen" {
			nopen++
		}
	}
	ex := optExtra{}
	k := 3
	for s := 0; s < k; s++ {
		var sched []work.OpenOpts
		var ro []int
		for i := 0; i < nopen; i++ {
			o := work.GenOpenOpts(tp, cfg)
			if s == 1 { // the schedule that flips freelist-sync and backend at every reopen
				o.NoFreelistSync = i%2 == 0
				o.Freelist = []string{"array", "hashmap"}[i%2]
			}
			if i == 0 {
				o.GivePageSize = true
			}
			o.AllocSize = []int{0, cfg.PageSize, 64 * 1024}[tp.Pick(2, 1, 1)]
			sched = append(sched, o)
			ro = append(ro, tp.Pick(2, 1, 1))
		}
		ex.Schedules = append(ex.Schedules, sched)
		ex.ROPass = append(ex.ROPass, ro)
		ps := cfg.PageSize
		if s > 0 {
			ps = []int{1024, 2048, 4096, 8192, 16384}[tp.Intn(5)]
		}
		ex.PageSizes = append(ex.PageSizes, ps)
	}
	c := &Case{Prop: prop, Engine: t.kind, Tier: tier, Seed: ts.Seed, Run: ts.Run, Prog: prog, Tapes: map[string][]uint64{}}
	c.Extra, _ = json.Marshal(ex)
	return c
}

func (t toolsim) runOpt(c *Case, dir string, out *Outcome) {
	var ex optExtra
	_ = json.Unmarshal(c.Extra, &ex)
	path := filepath.Join(dir, "odb")
	defer os.Remove(path)
	fail := func(class, f string, a ...any) {
		if len(out.Viol) < 5 {
			out.Viol = append(out.Viol, &work.Violation{Prop: "C13", Class: class, Msg: fmt.Sprintf(f, a...)})
		}
	}
	var hashes []uint64
	for si, sched := range ex.Schedules {
		Tick()
		os.Remove(path)
		cfg := c.Prog.Cfg
		if si < len(ex.PageSizes) {
			cfg.PageSize = ex.PageSizes[si]
		}
		order := sim.NewTape(c.Seed, c.Run, fmt.Sprintf("order%d", si))
		w := &sim.World{MapOrder: (cfg.MapOrder + si) % 3, Order: order}
		w.Install()
		e := work.NewExec(path, cfg)
		e.FileChecks = true
		oi := 0
		next := func() work.OpenOpts {
			o := work.OpenOpts{GivePageSize: true, Freelist: "array"}
			if oi < len(sched) {
				o = sched[oi]
			}
			oi++
			return o
		}
		if err := e.Open(next()); err != nil {
			sim.Uninstall()
			out.HarnessErr = err.Error()
			return
		}
		for i := range c.Prog.Steps {
			st := c.Prog.Steps[i]
			if st.Kind == "reopen" {
				// optional read-only pass between the close and the next read-write open
				mode := 0
				if si < len(ex.ROPass) && oi < len(ex.ROPass[si]) {
					mode = ex.ROPass[si][oi]
				}
				if mode > 0 {
					if err := e.Close(); err != nil {
						fail("close-error", "%v", err)
						break
					}
					ro := work.OpenOpts{ReadOnly: true, PreLoadFreelist: mode == 2, GivePageSize: oi%2 == 0}
					if err := e.Open(ro); err != nil {
						fail("ro-open", "read-only open (preload=%v): %v", mode == 2, err)
						break
					}
					e.CheckContent("read-only open")
					out.probe(fmt.Sprintf("read-only-pass-preload=%v", mode == 2), 1)
				}
				o := next()
				st.Opts = &o
				if e.Opts.NoFreelistSync != o.NoFreelistSync {
					out.probe("freelist-sync-flipped-at-reopen", 1)
				}
				if e.Opts.Freelist != o.Freelist {
					out.probe("backend-switched-at-reopen", 1)
				}
			}
			e.RunStep(i, &st)
			if e.Failed() {
				break
			}
		}
		if !e.Failed() && len(out.Viol) == 0 {
			_ = e.Close()
			// rebuilt == persisted, on one and the same file
			t.rebuiltEqualsPersisted(path, dir, cfg, fail, out)
		} else if e.DB != nil {
			_ = e.Close()
		}
		sim.Uninstall()
		out.Evals++
		for _, v := range e.Viol {
			v.Msg = fmt.Sprintf("option schedule %d (page size %d): %s/%s: %s", si, cfg.PageSize, v.Prop, v.Class, v.Msg)
			v.Prop, v.Class = "C13", "result-depends-on-options"
			out.Viol = append(out.Viol, v)
		}
		if len(out.Viol) > 0 {
			return
		}
		hashes = append(hashes, e.Cur.Hash())
		out.Distinct = append(out.Distinct, mixHash(e.Cur.Hash(), uint64(si), c.Run, uint64(cfg.PageSize)))
	}
	for i := 1; i < len(hashes); i++ {
		if hashes[i] != hashes[0] {
			fail("content-depends-on-options", "schedule %d ends with different content than schedule 0", i)
		}
	}
	out.Sample = map[string]any{"run": c.Run, "schedules": ex.Schedules, "page_sizes": ex.PageSizes, "history": c.Prog.Describe(3)}
}

// rebuiltEqualsPersisted: on a file at rest with a persisted free list L, a
// copy whose freelist pointer is abandoned must, when opened, rebuild exactly
// L ∪ {the pages the old freelist itself occupied}.
func (t toolsim) rebuiltEqualsPersisted(path, dir string, cfg work.Config, fail func(string, string, ...any), out *Outcome) {
	data, err := os.ReadFile(path)
	if err != nil {
		return
	}
	im, err := dec.Load(data)
	if err != nil {
		return
	}
	wi, ok := im.Winner()
	if !ok {
		return
	}
	res := im.Decode(wi)
	if !res.HasFreelist || !res.Clean() {
		return
	}
	want := map[uint64]bool{}
	for _, id := range res.FreeIDs {
		want[id] = true
	}
	for _, id := range res.FreelistPages {
		want[id] = true
	}
	cp := filepath.Join(dir, "abandoned")
	defer os.Remove(cp)
	// abandon the pointer in both metas with the decoder's writer
	img := append([]byte(nil), data...)
	for mi := 0; mi < 2; mi++ {
		if !im.Metas[mi].Valid {
			return
		}
		m := im.Metas[mi]
		m.Freelist = dec.NoFreelist
		dec.EncodeMeta(img[mi*im.PageSize+dec.PageHeaderSize:], m)
	}
	if err := os.WriteFile(cp, img, 0600); err != nil {
		return
	}
	db, err := bolt.Open(cp, 0600, &bolt.Options{ReadOnly: true, PreLoadFreelist: true})
	if err != nil {
		fail("rebuild-open", "opening the copy with abandoned freelist: %v", err)
		return
	}
	defer db.Close()
	out.probe("rebuilt-vs-persisted-compared", 1)
	_ = db.View(func(tx *bolt.Tx) error {
		for id := uint64(2); id < res.Meta.Pgid; id++ {
			info, err := tx.Page(int(id))
			if err != nil || info == nil {
				fail("rebuild-page", "Tx.Page(%d): %v", id, err)
				return nil
			}
			if (info.Type == "free") != want[id] {
				fail("rebuilt-differs-from-persisted", "page %d: rebuilt free list says free=%v, persisted list (plus its own pages) says %v", id, info.Type == "free", want[id])
				return nil
			}
		}
		return nil
	})
}

func init() {
	register(&Info{Prop: "C15", Engine: toolsim{"compactsim"}, Level: "exploration", QuickS: 45, ThoroughS: 600,
		RealStub: "real: bolt.Compact and `bbolt compact` (cmd/bbolt/command, in-process) on real files; no fault or schedule dimension (stated plainly): the simulator contributes the source population (end states of seeded histories)",
		Rule:     "one run index in 46 is the big-file scenario (more than 16 MiB of data with the default AllocSize, so the file carries a preallocated step beyond its high-water mark, and the last commits raise the high-water mark so that the two meta pages disagree about it); in a quarter of the runs the source file is the history's content re-laid out by the independent encoder dec/enc.go (a valid version-2 file the current writer would not produce); per seeded source (deep nesting, inline and paged buckets, empty buckets, empty and multi-page values, non-zero sequences, free pages) evaluations = one Compact per transaction-size limit in {0,1,2,7,13,97,4 tape-chosen in 20..5000,65536,2^40}, alternating library and CLI; the destination must decode cleanly and dump equal to the source and the model, pass Tx.Check; the source's SHA-256 is unchanged. distinct = distinct (source content, limit)",
		Assume:   []string{"plain seeded model-based testing of a deterministic function; listed as such"}})
	register(&Info{Prop: "C20", Engine: toolsim{"repairsim"}, Level: "exploration", QuickS: 45, ThoroughS: 600,
		RealStub: "real: `bbolt surgery freelist abandon|rebuild` and `surgery revert-meta-page` from cmd/bbolt/command run in-process on real files; referee: independent decoder + model version table",
		Rule:     "per seeded history (ending in a commit): abandon -> both metas without freelist, opens, content == model, free == unreachable, Tx.Check clean; abandon+rebuild -> freelist persisted again, same checks; revert-meta-page directly after the last commit -> opens at exactly the previous model version, Tx.Check clean; every command leaves its source byte-identical and nothing else in the directory. evaluations = commands executed; distinct = distinct (content, txid)",
		Assume:   []string{"revert is only exercised directly after a successful commit (the property's precondition)"}})
	register(&Info{Prop: "C13", Engine: toolsim{"optsim"}, Level: "exploration", QuickS: 45, ThoroughS: 600,
		RealStub: "real: all of bbolt on real files; varied: the option assignment of every Open (backend, freelist-sync, page size given/omitted and the creation page size, initial map size, grow-sync, mlock, preload, strict mode, alloc size), read-only passes with/without preloading between reopenings, map iteration order policy",
		Rule:     "one seeded history is executed under 3 option schedules (one of them flips freelist-sync and backend at every reopen; schedules 2 and 3 also use a different page size); every API result is compared with the model in each execution, so results are identical across schedules; after every commit/reopen the rebuilt or persisted free set is compared with the decoder's; at the end a copy of the file with its freelist pointer abandoned must rebuild exactly the persisted list plus the old freelist's own pages. evaluations = executions; distinct = distinct (content, schedule)",
		Assume:   []string{"Mlock depends on RLIMIT_MEMLOCK of the sandbox"}})
}
