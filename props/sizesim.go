package props

import (
	"errors"
	"fmt"
	"os"
	"path/filepath"
	"time"

	bolt "go.etcd.io/bbolt"
	berrors "go.etcd.io/bbolt/errors"
	"go.etcd.io/bbolt/xverif/sim"
	"go.etcd.io/bbolt/xverif/work"
)

// sizesim drives growing workloads against a configured MaxSize and watches
// the data file's length at every I/O call (C18).
type sizesim struct{}

func (sizesim) Name() string { return "sizesim" }

func (ss sizesim) Gen(prop, tier string, ts *sim.Tapes) *Case {
	cfg := work.GenConfig(ts.Get("cfg"))
	cfg.StrictMode = false
	t := ts.Get("size")
	ps := cfg.PageSize
	// the limit: around page / alloc-chunk / power-of-two / map-step boundaries
	alloc := cfg.AllocSize
	if alloc == 0 {
		alloc = 16 << 20
	}
	var base int
	switch t.Pick(3, 3, 2, 2, 2) {
	case 0:
		base = ps * (4 + t.Intn(60))
	case 1:
		base = 1 << uint(15+t.Intn(7)) // 32 KiB … 2 MiB: the map-size steps
	case 2:
		base = alloc * (1 + t.Intn(4))
	case 3:
		base = 32768 + ps*t.Intn(40)
	case 4:
		base = 4*ps + t.Intn(8*ps)
	}
	base += []int{0, -1, 1, -ps, ps, 7}[t.Pick(3, 2, 2, 1, 1, 1)]
	if base < 4*ps {
		base = 4 * ps
	}
	cfg.MaxSize = base
	switch t.Pick(3, 2, 2, 1) {
	case 0:
		cfg.InitialMmapSize = 0
	case 1:
		cfg.InitialMmapSize = base / 2
	case 2:
		cfg.InitialMmapSize = base * 2
	case 3:
		cfg.InitialMmapSize = 8 << 20
	}
	p := work.GenParams{MaxSteps: 12, MaxOps: 30, Reopen: true, NoErrors: true, OnlyCommit: false}
	if t.Chance(1, 3) {
		// read transactions held across the transactions that hit the limit: the map
		// must be large enough never to move (held readers on one task), and the
		// growth chunk small enough for the limit to be reachable at all
		cfg.InitialMmapSize = 64 << 20
		cfg.AllocSize = 8 * ps
		p.Readers = true
	}
	if tier == "thorough" {
		p.MaxSteps, p.MaxOps = 30, 60
	}
	p.Guards = ActiveGuards()
	prog := work.GenProgram(ts, cfg, p)
	for i := range prog.Steps {
		// reopen keeps the limit and the first open's map size policy
		if prog.Steps[i].Kind == "reopen" && t.Chance(1, 2) {
			prog.Steps[i].Opts.InitialMmapSize = cfg.InitialMmapSize
		}
	}
	c := &Case{Prop: prop, Engine: ss.Name(), Tier: tier, Seed: ts.Seed, Run: ts.Run, Prog: prog, Tapes: map[string][]uint64{}, Params: map[string]int{}}
	if t.Chance(1, 5) {
		// from the first reopening on the limit is smaller than the file (even smaller than one page): the file
		// was already longer when opened and is simply never grown further
		c.Params["tiny_limit"] = []int{1, 100, ps - 1, ps / 2, ps, 2*ps + 1}[t.Intn(6)]
	}
	return c
}

func (ss sizesim) Run(c *Case, dir string) *Outcome {
	out := &Outcome{}
	path := filepath.Join(dir, "db")
	os.Remove(path)
	defer os.Remove(path)
	if c.Tapes == nil {
		c.Tapes = map[string][]uint64{}
	}
	order := sim.NewTape(c.Seed, c.Run, "order")
	if c.Tapes["order"] != nil {
		order = sim.ReplayTape("order", c.Tapes["order"])
	}
	e := work.NewExec(path, c.Prog.Cfg)
	e.FileChecks = true
	e.RollbackAfterFailedCommit = c.Run%4 >= 2 // half of the runs use the `defer tx.Rollback()` idiom
	limit := int64(c.Prog.Cfg.MaxSize)
	bound := limit // max(MaxSize, length at open)
	fail := func(class, f string, a ...any) {
		e.Viol = append(e.Viol, &work.Violation{Prop: "C18", Class: class, Msg: fmt.Sprintf(f, a...)})
	}
	disk := sim.NewDisk(path)
	w := &sim.World{MapOrder: c.Prog.Cfg.MapOrder, Order: order, Disk: disk}
	checkLen := func(when string) {
		if fi, err := os.Stat(path); err == nil && fi.Size() > bound {
			fail("file-exceeds-max-size", "%s: data file is %d bytes, MaxSize %d (length at open %d)", when, fi.Size(), limit, bound)
		}
	}
	disk.AfterEvent = func(i int) {
		ev := &disk.Log[i]
		switch ev.Kind {
		case "truncate":
			if ev.Arg > bound && len(e.Viol) == 0 {
				fail("file-exceeds-max-size", "ftruncate to %d bytes, MaxSize %d (length at open %d)", ev.Arg, limit, bound)
			}
		case "write":
			if ev.Off+ev.Arg > bound && len(e.Viol) == 0 {
				fail("file-exceeds-max-size", "pwrite off=%d len=%d ends beyond MaxSize %d (length at open %d)", ev.Off, ev.Arg, limit, bound)
			}
		}
	}
	w.Install()
	defer sim.Uninstall()
	finished := false
	defer func() {
		if finished && e.DB != nil {
			_ = e.Close()
		}
	}()
	if err := e.Open(e.DefaultOpts()); err != nil {
		out.HarnessErr = fmt.Sprintf("initial open: %v", err)
		return out
	}
	setBound := func() {
		bound = limit
		if fi, err := os.Stat(path); err == nil && fi.Size() > bound {
			bound = fi.Size()
		}
	}
	setBound()
	for i := range c.Prog.Steps {
		Tick()
		st := &c.Prog.Steps[i]
		switch st.Kind {
		case "tx":
			writable := st.Tx.Mode == "update" || st.Tx.Mode == "rw"
			e.TolerateErr = writable
			e.RunStepNoCheck(i, st)
			e.TolerateErr = false
			if e.Failed() {
				break
			}
			if e.LastErr != nil {
				out.fault("ErrMaxSizeReached", 1)
				if !errors.Is(e.LastErr, berrors.ErrMaxSizeReached) {
					fail("wrong-error", "transaction failed with %v, expected the size-limit error", e.LastErr)
					break
				}
				// the database must stay writable: the next writer can begin
				done := make(chan error, 1)
				db := e.DB
				go func() {
					tx, berr := db.Begin(true)
					if berr == nil {
						berr = tx.Rollback()
					}
					done <- berr
				}()
				select {
				case berr := <-done:
					if berr != nil {
						fail("begin-after-size-limit", "Begin(true) after ErrMaxSizeReached: %v", berr)
					}
				case <-time.After(12 * time.Second):
					fail("writer-blocked-after-size-limit", "after a transaction failed with ErrMaxSizeReached the next Begin(true) does not return (writer lock not released)")
					e.DB = nil
				}
				if len(e.Viol) > 0 {
					break
				}
			}
			if writable {
				e.CheckContent(st.Tx.End)
				e.CheckFile(st.Tx.End)
				for _, id := range sortedReaderIDs(e) {
					e.CheckReader(id)
				}
				if e.LastErr != nil {
					for _, v := range e.Viol {
						if v.Prop != "C18" && v.Prop != c.Prop {
							v.Msg = v.Prop + "/" + v.Class + ": " + v.Msg
							v.Prop, v.Class = "C18", "state-after-size-limit-failure"
						}
					}
					// a read and a tiny write that needs no new page beyond the limit must still work or fail cleanly
					verr := e.DB.View(func(tx *bolt.Tx) error { return nil })
					if verr != nil {
						fail("unusable-after-limit", "View after ErrMaxSizeReached: %v", verr)
					}
				}
			}
			checkLen("after step")
		case "reopen":
			if tl := c.Params["tiny_limit"]; tl > 0 && int64(tl) != limit {
				e.Cfg.MaxSize = tl
				limit = int64(tl)
				out.probe("limit-below-the-existing-file", 1)
			}
			e.RunStep(i, st)
			setBound()
		default:
			e.RunStep(i, st)
		}
		if e.Failed() {
			break
		}
	}
	if !e.Failed() {
		if err := e.Close(); err != nil {
			fail("close-error", "%v", err)
		}
		checkLen("after close")
		if !e.Failed() {
			if err := e.Open(e.Opts); err != nil {
				fail("reopen-error", "reopen: %v", err)
			} else {
				e.CheckContent("final reopen")
				_ = e.Close()
			}
		}
	}
	finished = true
	if c.Prop == "C08" {
		// C08's size-limit arm: what a refused transaction leaves behind is C08's own
		// (the length of the file stays C18's)
		for _, v := range e.Viol {
			if v.Prop == "C18" && v.Class != "file-exceeds-max-size" {
				v.Prop, v.Class = "C08", "size-limit:"+v.Class
			}
		}
	}
	out.Viol = e.Viol
	out.merge(e.Probes)
	out.Evals = 1
	c.Tapes["order"] = append([]uint64(nil), order.Rec...)
	fi, _ := os.Stat(path)
	var sz int64
	if fi != nil {
		sz = fi.Size()
	}
	if e.Probes["commit"] > 0 {
		out.Distinct = append(out.Distinct, mixHash(e.Cur.Hash(), uint64(limit), uint64(sz), uint64(c.Prog.Cfg.InitialMmapSize)))
	}
	if sz*10 >= limit*9 {
		out.probe("file-within-10pct-of-limit", 1)
	}
	out.Sample = map[string]any{"run": c.Run, "cfg": c.Prog.Cfg, "final_file_bytes": sz, "steps": c.Prog.Describe(3)}
	return out
}

func (ss sizesim) Shrinks(c *Case) []*Case { return shrinkProgram(c) }

func init() {
	register(&Info{Prop: "C18", Engine: sizesim{}, Level: "exploration", QuickS: 45, ThoroughS: 600,
		RealStub: "real: all of bbolt (tag verif), real file on tmpfs; observed through the I/O hooks: every ftruncate and pwrite with its offset/length, plus fstat after every step; simulated: map iteration order",
		Rule:     "one evaluation = one seeded growing workload under a MaxSize drawn around page / allocation-chunk / power-of-two / map-step boundaries (±1, ±page) crossed with InitialMmapSize below/above the limit, AllocSize and page size; the file length is checked at every ftruncate/pwrite and after every step against max(MaxSize, length at open); a transaction that fails must fail with ErrMaxSizeReached and leave content, accounting and usability intact. distinct = distinct (final content, limit, final file size, initial map size) among workloads with at least one commit",
		Assume:   []string{"MaxSize >= the four initial pages of a new file (a fifth of the runs lower the limit at the first reopening below the size of the existing file, down to a single byte)", "no transaction that would fit is required to succeed (the property does not promise it)"}})
}
