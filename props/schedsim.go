package props

import (
	"bytes"
	"encoding/json"
	"errors"
	"fmt"
	"os"
	"path/filepath"
	"sort"
	"testing"
	"testing/synctest"
	"time"

	"github.com/anishathalye/porcupine"
	bolt "go.etcd.io/bbolt"
	berrors "go.etcd.io/bbolt/errors"
	"go.etcd.io/bbolt/xverif/dec"
	"go.etcd.io/bbolt/xverif/model"
	"go.etcd.io/bbolt/xverif/sim"
	"go.etcd.io/bbolt/xverif/work"
)

// schedsim runs several client tasks (writers, readers, a closer, a stats
// caller) against one DB under the token scheduler inside a synctest bubble.
// Every interleaving decision comes from the sched tape.
type schedsim struct{}

func (schedsim) Name() string { return "schedsim" }

// client program kinds (Step.Kind):
//   tx      – one transaction (Step.Tx; Mode update|rw|view|ro)
//   hold    – reader: Begin(false), Step.Reader full dumps with pauses, Rollback
//   pause   – yield Step.Reader times
//   close   – db.Close()
//   stats   – db.Stats()

func genClients(ts *sim.Tapes, cfg work.Config, prop, tier string) (prelude *work.Program, clients [][]work.Step) {
	t := ts.Get("clients")
	p := work.GenParams{MaxSteps: 3, MaxOps: 12, NoErrors: true, OnlyCommit: true, NoBigValues: false}
	p.Guards = ActiveGuards()
	// prelude: a few committed transactions that create the shared buckets
	prelude = work.GenProgram(ts, cfg, work.GenParams{MaxSteps: 4, MaxOps: 30, NoErrors: true, OnlyCommit: true, Guards: p.Guards})
	pm := work.FinalModel(prelude)
	nw := 1 + t.Intn(2)
	nr := 1 + t.Intn(3)
	if prop == "C02" || prop == "C10" || prop == "C06" {
		nr = 1 + t.Intn(5)
		nw = 1 + t.Intn(2)
	}
	if prop == "C01" {
		nw = 2 + t.Intn(2) // several writers queueing for the writer lock
		nr = t.Intn(3)
	}
	if prop == "C14" {
		nr = t.Intn(2)
		nw = 1 + t.Intn(2)
	}
	if prop == "C03" {
		nw = 1 + t.Intn(4)
		nr = t.Intn(3)
	}
	if prop == "C08" {
		nw = 1 + t.Intn(3)
		nr = t.Intn(4)
	}
	ntx := 3 + t.Intn(6)
	if tier == "thorough" {
		ntx = 4 + t.Intn(14)
	}
	for w := 0; w < nw; w++ {
		wp := p
		wp.MaxSteps = ntx
		wp.OnlyCommit = false
		sub := sim.NewTapes(ts.Seed, ts.Run*131+uint64(w)+1)
		prog := work.GenProgramFrom(sub, cfg, wp, pm)
		var steps []work.Step
		for _, s := range prog.Steps {
			if s.Kind == "tx" {
				steps = append(steps, s)
			}
			if t.Chance(1, 3) {
				steps = append(steps, work.Step{Kind: "pause", Reader: 1 + t.Intn(3)})
			}
		}
		clients = append(clients, steps)
	}
	for r := 0; r < nr; r++ {
		var steps []work.Step
		n := 1 + t.Intn(4)
		for i := 0; i < n; i++ {
			if t.Chance(2, 3) {
				steps = append(steps, work.Step{Kind: "pause", Reader: 1 + t.Intn(20)})
			}
			steps = append(steps, work.Step{Kind: "hold", Reader: 1 + t.Intn(3)})
		}
		clients = append(clients, steps)
	}
	if prop == "C14" {
		nb := 1 + t.Intn(2)
		for b := 0; b < nb; b++ {
			var steps []work.Step
			n := 1 + t.Intn(2)
			for i := 0; i < n; i++ {
				steps = append(steps, work.Step{Kind: "pause", Reader: t.Intn(25)})
				// Reader encodes the variant: 0 WriteTo, 1 CopyFile, 2 WriteTo with WriteFlag, 3 WriteFlag while the
				// path has been replaced by another file; +10: hold the tx for a while before copying
				// 4: WriteTo into a writer that fails part-way; 5: CopyFile to a device that is full
				steps = append(steps, work.Step{Kind: "backup", Reader: t.Pick(6, 4, 2, 2, 1, 1) + 10*t.Pick(2, 1)})
			}
			clients = append(clients, steps)
		}
	}
	if prop == "C03" {
		if t.Chance(1, 2) {
			clients = append(clients, []work.Step{{Kind: "stats"}, {Kind: "pause", Reader: 3}, {Kind: "stats"}, {Kind: "pause", Reader: 9}, {Kind: "stats"}})
		}
		if t.Chance(1, 3) {
			clients = append(clients, []work.Step{{Kind: "pause", Reader: 5 + t.Intn(60)}, {Kind: "close"}})
		}
		if t.Chance(1, 3) {
			// a task that forbids the file to grow for a while (DB.MaxSize = current size): commits that need new
			// pages then fail with the size-limit error, the others go through - and nobody may be left blocked
			clients = append(clients, []work.Step{{Kind: "pause", Reader: 3 + t.Intn(30)}, {Kind: "limit", Reader: 1},
				{Kind: "pause", Reader: 10 + t.Intn(60)}, {Kind: "limit", Reader: 0}})
		}
	}
	return prelude, clients
}

func (ss schedsim) Gen(prop, tier string, ts *sim.Tapes) *Case {
	cfg := work.GenConfig(ts.Get("cfg"))
	cfg.StrictMode = false
	cfg.Mlock = false
	t := ts.Get("swarm")
	// map size: small enough to force remaps under readers, or large
	switch t.Pick(2, 2, 1) {
	case 0:
		cfg.InitialMmapSize = 0
	case 1:
		cfg.InitialMmapSize = 64 << 20
	}
	prelude, clients := genClients(ts, cfg, prop, tier)
	c := &Case{Prop: prop, Engine: ss.Name(), Tier: tier, Seed: ts.Seed, Run: ts.Run, Prog: prelude, Clients: clients,
		Tapes: map[string][]uint64{}, Params: map[string]int{"stickiness": []int{0, 50, 80, 95}[t.Pick(1, 2, 3, 2)]}}
	if prop == "C01" {
		// small files: every crash state is written, opened, decoded and committed to
		c.Prog.Cfg.AllocSize = 8 * c.Prog.Cfg.PageSize
		if c.Prog.Cfg.InitialMmapSize > 1<<20 {
			c.Prog.Cfg.InitialMmapSize = 1 << 20
		}
		c.Params["crash_budget"] = 120
		if tier == "thorough" {
			c.Params["crash_budget"] = 600
		}
	}
	if prop == "C08" {
		// I/O faults while the tasks run: armed-call indices over the concurrent phase
		ft := ts.Get("fault")
		ntx := 0
		for _, cl := range clients {
			for _, st := range cl {
				if st.Kind == "tx" {
					ntx++
				}
			}
		}
		var ex schedExtra
		nf := 1 + ft.Intn(3)
		for i := 0; i < nf; i++ {
			ex.Faults = append(ex.Faults, sim.FaultPlan{K: ft.Intn(5*ntx + 4), Kind: []string{"eio", "short", "enospc", "short72"}[ft.Intn(4)]})
		}
		c.Extra, _ = json.Marshal(ex)
	}
	return c
}

// schedExtra: I/O faults injected while the client tasks run (C08's concurrent arm).
type schedExtra struct {
	Faults []sim.FaultPlan `json:"faults,omitempty"`
}

type stopRun struct{}

type mtWorld struct {
	db        *bolt.DB
	cfg       work.Config
	s         *sim.Sched
	versions  map[int]*model.Bucket
	inflight  map[int]*model.Bucket
	lastRet   int // txid of the newest commit that has returned to its caller
	bodies    int // write transaction bodies in progress
	openTx    int // transaction bodies (read or write) in progress
	closeInv  bool
	closed    bool
	viol      []*work.Violation
	probes    map[string]int
	hist      []porcupine.Operation
	commits   int
	oldReads  int
	readerAge map[int]int
	// C06 monitor
	used        map[int]map[uint64]bool
	readersOpen map[int]int
	newest      int
	// C14
	pathReplaced bool
	limitSeen bool // a size limit was in force at some time: commits may fail with ErrMaxSizeReached
	// C08 concurrent arm: I/O faults while tasks run
	disk        *sim.Disk
	bodySerial  int          // serial number of the writer body that holds the writer lock
	faultedBody map[int]string // body serial -> description of the fault that fired inside its commit
}

func (m *mtWorld) fail(prop, class, f string, a ...any) {
	if len(m.viol) < 10 {
		m.viol = append(m.viol, &work.Violation{Prop: prop, Class: class, Msg: fmt.Sprintf(f, a...)})
	}
}

type verOp struct {
	write bool
	id    int
}

var versionModel = porcupine.Model{
	Init: func() interface{} { return -1 },
	Step: func(state, input, output interface{}) (bool, interface{}) {
		st := state.(int)
		op := input.(verOp)
		if st == -1 { // first observed operation fixes the starting version
			if op.write {
				return true, op.id
			}
			return true, op.id
		}
		if op.write {
			return st == op.id-1, op.id
		}
		return st == op.id, st
	},
	Equal: func(a, b interface{}) bool { return a.(int) == b.(int) },
}

func (ss schedsim) Run(c *Case, dir string) (out *Outcome) {
	out = &Outcome{}
	if curT == nil {
		out.HarnessErr = "schedsim needs the worker's testing.T"
		return out
	}
	if c.Tapes == nil {
		c.Tapes = map[string][]uint64{}
	}
	defer func() {
		if r := recover(); r != nil {
			msg := fmt.Sprint(r)
			// end-of-bubble deadlock panic after an aborted run
			if out.First("") == nil {
				out.HarnessErr = "bubble: " + msg
			}
		}
	}()
	synctest.Test(curT, func(t *testing.T) { ss.runInBubble(c, dir, out) })
	return out
}

func (ss schedsim) runInBubble(c *Case, dir string, out *Outcome) {
	path := filepath.Join(dir, fmt.Sprintf("db-%d", c.Run))
	os.Remove(path)
	defer os.Remove(path)
	var schedTape, orderTape *sim.Tape
	if c.Tapes["sched"] != nil {
		schedTape = sim.ReplayTape("sched", c.Tapes["sched"])
		orderTape = sim.ReplayTape("order", c.Tapes["order"])
	} else {
		schedTape = sim.NewTape(c.Seed, c.Run, "sched")
		orderTape = sim.NewTape(c.Seed, c.Run, "order")
	}
	s := sim.NewSched(schedTape)
	s.Stickiness = c.Params["stickiness"]
	s.KeepTrace = os.Getenv("VERIF_TRACE") != ""
	if c.Params["max_dec"] > 0 {
		s.MaxDec = c.Params["max_dec"]
	}
	cfg := c.Prog.Cfg
	w := &sim.World{MapOrder: cfg.MapOrder, Order: orderTape, Sched: s}
	var m *mtWorld
	if c.Prop == "C06" || c.Prop == "C02" {
		// page-set monitor under concurrency (C06 as stated; for C02 it is the
		// mechanism-level form of "the snapshot does not change": a page of an
		// open reader's version is about to be overwritten): page sets are computed by the
		// decoder the moment a commit's meta write is complete (the writer
		// still holds the writer lock), and every pwrite is checked against the
		// sets of the newest committed version and of every open reader
		ps := uint64(cfg.PageSize)
		w.OnPoint = func(db *bolt.DB, point string) {
			if m == nil || db != m.db || point != "Commit.metaWritten" {
				return
			}
			if data, err := os.ReadFile(path); err == nil {
				if im, err := dec.Load(data); err == nil {
					if wi, ok := im.Winner(); ok {
						res := im.Decode(wi)
						if res.Fatal == "" {
							m.used[int(res.Meta.Txid)] = res.UsedSet()
							m.newest = int(res.Meta.Txid)
						}
					}
				}
			}
		}
		w.OnWrite = func(db *bolt.DB, off int64, n int) {
			if m == nil || db != m.db {
				return
			}
			first, last := uint64(off)/ps, uint64(off+int64(n)-1)/ps
			check := func(id int, what string) {
				set := m.used[id]
				if set == nil {
					m.probes["write-without-known-page-set"]++
					return
				}
				for pg := first; pg <= last; pg++ {
					if set[pg] {
						m.fail(c.Prop, "overwrite-visible-page", "pwrite off=%d len=%d touches page %d which belongs to %s (txid %d)", off, n, pg, what, id)
						return
					}
				}
			}
			m.probes["writes-monitored"]++
			nviol := len(m.viol)
			defer func() {
				if len(m.viol) > nviol && m.s.InTask() {
					// the write has not happened yet: the writing task stops here, so that no reader is left
					// walking a tree that is being overwritten (that shows up as a run that never ends)
					panic(stopRun{})
				}
			}()
			check(m.newest, "the newest committed version")
			for id, cnt := range m.readersOpen {
				if cnt > 0 && id != m.newest {
					check(id, "the version of an open read transaction")
					m.probes["writes-checked-against-old-reader"]++
				}
			}
			if slot := uint64(m.newest % 2); c.Prop == "C06" && first <= slot && slot <= last {
				m.fail("C06", "overwrite-newest-meta", "pwrite off=%d len=%d hits meta slot %d holding the newest committed meta (txid %d)", off, n, slot, m.newest)
			}
		}
	}
	var disk *sim.Disk
	var sx schedExtra
	if len(c.Extra) > 0 {
		_ = json.Unmarshal(c.Extra, &sx)
	}
	if c.Prop == "C08" && len(sx.Faults) > 0 {
		disk = sim.NewDisk(path)
		disk.PageSize = cfg.PageSize
		disk.Multi = sx.Faults
		disk.Veto = func(op string, afterMeta bool) bool {
			// listed finding F6 (the final sync fails while readers are or may be open) and the documented
			// present-or-absent exception are decided by the sequential arm; a failing (un)map leaves the
			// whole DB unusable for every task, which the sequential arm also decides
			return (op == "fdatasync" && afterMeta) || op == "mmap" || op == "munmap" || op == "mlock" || op == "munlock"
		}
		disk.OnFire = func(op, kind string) {
			if m != nil {
				m.faultedBody[m.bodySerial] = op + ":" + kind
				out.fault(op+":"+kind, 1)
				if m.openTx > 1 {
					out.fault("with-other-transactions-open-during-failure", 1)
				}
			}
		}
		w.Disk = disk
	}
	if c.Prop == "C01" {
		// the shadow disk records every I/O call of the concurrent phase: crash states are built from it afterwards
		disk = sim.NewDisk(path)
		disk.Record = true
		w.Disk = disk
	}
	w.Install()
	defer sim.Uninstall()

	// prelude, sequentially (the root goroutine is not a task: hooks pass through)
	pe := work.NewExec(path, cfg)
	if err := pe.Open(pe.DefaultOpts()); err != nil {
		out.HarnessErr = fmt.Sprintf("initial open: %v", err)
		return
	}
	for i := range c.Prog.Steps {
		if c.Prog.Steps[i].Kind == "tx" {
			pe.RunStep(i, &c.Prog.Steps[i])
		}
		if pe.Failed() {
			out.Viol = pe.Viol
			_ = pe.Close()
			return
		}
	}
	m = &mtWorld{db: pe.DB, cfg: cfg, s: s, versions: map[int]*model.Bucket{}, inflight: map[int]*model.Bucket{}, probes: map[string]int{}, readerAge: map[int]int{},
		used: map[int]map[uint64]bool{}, readersOpen: map[int]int{}, disk: disk, faultedBody: map[int]string{}}
	if disk != nil && c.Prop == "C08" {
		disk.Arm(true)
	}
	if c.Prop == "C01" {
		base, rerr := os.ReadFile(path)
		if rerr != nil {
			out.HarnessErr = rerr.Error()
			return
		}
		disk.Base, disk.Log = base, nil // everything the prelude wrote is synced
	}
	m.versions[pe.LastTxid] = pe.Cur
	m.lastRet = pe.LastTxid
	m.newest = pe.LastTxid
	if c.Prop == "C06" || c.Prop == "C02" {
		pe.CheckFile("prelude")
		if pe.LastDec != nil {
			m.used[pe.LastTxid] = pe.LastDec.UsedSet()
		}
	}

	for ci, steps := range c.Clients {
		ci, steps := ci, steps
		s.Go(fmt.Sprintf("c%d", ci), func(t *sim.Task) { ss.client(m, ci, steps, t) })
	}
	s.Run()
	out.Decisions = s.Decisions
	out.SimTimeNS = int64(time.Since(s.SimStart))
	out.Interleaved = []uint64{s.Fingerprint()}
	out.Trace = s.Trace
	out.probe("preemptions", s.Preempts)
	for k, v := range s.Points {
		out.probe(k, v)
	}
	// scheduling "faults" that actually happened in this run
	if s.Preempts > 0 {
		out.fault("preemption-at-hook-point", s.Preempts)
	}
	if n := s.Points["io.mmap"]; n > 0 {
		out.fault("remap-during-concurrent-run", n)
	}
	for _, k := range []string{"blocked-on-lock.rwlock", "blocked-on-lock.metalock", "blocked-on-lock.mmaplock"} {
		if n := s.Points[k]; n > 0 {
			out.fault("task-"+k, n)
		}
	}
	out.probe("goroutines-adopted-at-ordinary-hooks", s.Adopted)
	out.probe("time-advances", s.TimeAdv)
	if s.Exhausted {
		out.probe("decision-budget-exhausted(drained)", 1)
	}
	for _, p := range s.TaskPanics() {
		m.fail(c.Prop, "panic", "panic in a client task: %s", p)
	}
	if s.Deadlock != "" {
		m.fail("C03", "deadlock", "no task can run and no timer is pending: %s", s.Deadlock)
		s.Abort()
	} else if s.Stuck {
		out.HarnessErr = "scheduler stuck: " + s.Deadlock
		s.Abort()
	}
	c.Tapes["sched"] = append([]uint64(nil), schedTape.Rec...)
	c.Tapes["order"] = append([]uint64(nil), orderTape.Rec...)
	if s.Deadlock == "" && !s.Stuck {
		// after a violation tasks may have stopped inside transactions: do not
		// wait for them in Close (the DB is simply abandoned)
		if !m.closed && len(m.viol) == 0 {
			if err := m.db.Close(); err != nil {
				m.fail(c.Prop, "close-error", "Close: %v", err)
			}
		}
		// linearizability of the version history (porcupine)
		if len(m.hist) > 0 && len(m.viol) == 0 {
			res := porcupine.CheckOperationsTimeout(versionModel, m.hist, 5*time.Second)
			switch res {
			case porcupine.Illegal:
				m.fail("C03", "not-linearizable", "the history of %d transaction ids is not linearizable", len(m.hist))
			case porcupine.Unknown:
				out.probe("porcupine-inconclusive", 1)
			default:
				out.probe("porcupine-ok", 1)
			}
		}
	}
	if disk != nil {
		disk.Arm(false)
	}
	if c.Prop == "C08" && s.Deadlock == "" && !s.Stuck && len(m.viol) == 0 && !m.closed {
		// after the failures: clean reopen shows exactly the newest acknowledged version, accounting exact
		pe.DB = nil
		pe.Viol = nil
		pe.Cur = m.versions[m.lastRet]
		pe.LastTxid = m.lastRet
		pe.AllowInvalidMeta = true // a failed commit may have left a torn record in the slot it was writing
		if err := pe.Open(pe.Opts); err != nil {
			m.fail("C08", "reopen-after-fault", "Open after the run: %v", err)
		} else {
			pe.CheckContent("reopen after concurrent failures")
			pe.CheckFile("reopen after concurrent failures")
			for _, v := range pe.Viol {
				v.Msg = v.Prop + "/" + v.Class + ": " + v.Msg
				v.Prop, v.Class = "C08", "state-after-reopen"
				m.viol = append(m.viol, v)
			}
			_ = pe.Close()
		}
	}
	if c.Prop == "C08" && len(m.faultedBody) > 0 {
		// what goes wrong after an injected commit failure (a blocked writer, a reader whose snapshot
		// changed, a lost or half-applied transaction) is C08's to report
		for _, v := range m.viol {
			if v.Prop != "C08" {
				v.Class = "after-failed-commit:" + v.Prop + "/" + v.Class
				v.Prop = "C08"
			}
		}
	}
	if c.Prop == "C01" && s.Deadlock == "" && !s.Stuck && len(m.viol) == 0 && disk != nil {
		sim.Uninstall()
		ss.crashStates(c, m, pe, disk, path, out)
	}
	if n := m.probes["backup-writer-fails"]; n > 0 {
		out.fault("backup-destination-writer-fails", n)
	}
	if n := m.probes["backup-device-full"]; n > 0 {
		out.fault("backup-destination-device-full", n)
	}
	if n := m.probes["dump-by-old-reader"]; n > 0 {
		out.fault("reader-dump-while-newer-versions-committed", n)
	}
	out.Viol = append(out.Viol, m.viol...)
	out.merge(m.probes)
	out.Evals = 1
	if c.Prop == "C08" {
		if len(m.faultedBody) > 0 && s.Preempts > 0 {
			out.Distinct = append(out.Distinct, s.Fingerprint())
		}
	} else if m.commits > 0 && s.Preempts > 0 {
		out.Distinct = append(out.Distinct, s.Fingerprint())
	}
	out.Sample = map[string]any{"run": c.Run, "cfg": cfg, "clients": len(c.Clients), "decisions": s.Decisions, "preemptions": s.Preempts, "commits": m.commits}
}

// client executes one client's program as a task.
func (ss schedsim) client(m *mtWorld, ci int, steps []work.Step, t *sim.Task) {
	e := work.NewExec("", m.cfg)
	e.CursorStep = func() {
		if len(m.viol) > 0 {
			panic(stopRun{}) // a violation is already recorded: do not keep walking a possibly corrupted tree
		}
		if !m.s.Draining {
			t.Pause("client.chunk")
		}
	}
	defer func() {
		if r := recover(); r != nil {
			if _, ok := r.(stopRun); !ok {
				panic(r)
			}
		}
	}()
	flush := func() {
		for _, v := range e.Viol {
			m.viol = append(m.viol, v)
		}
		e.Viol = nil
	}
	defer flush()
	for si := range steps {
		st := &steps[si]
		if m.s.Draining && st.Kind != "close" {
			continue
		}
		switch st.Kind {
		case "pause":
			for i := 0; i < st.Reader; i++ {
				t.Pause("client.pause")
			}
		case "limit":
			if st.Reader == 1 {
				if fi, err := os.Stat(m.db.Path()); err == nil {
					m.db.MaxSize = int(fi.Size())
					m.limitSeen = true
					m.probes["size-limit-switched-on"]++
				}
			} else {
				m.db.MaxSize = 0
			}
		case "stats":
			_ = m.db.Stats()
			m.probes["stats-calls"]++
		case "close":
			m.closeInv = true
			err := m.db.Close()
			if err != nil {
				m.fail("C03", "close-error", "Close: %v", err)
			}
			if m.openTx != 0 {
				m.fail("C03", "close-with-open-tx", "Close returned while %d transaction bodies were still running", m.openTx)
			}
			m.closed = true
			m.probes["close-under-load"]++
		case "hold":
			ss.reader(m, e, st, t)
		case "backup":
			ss.backup(m, e, ci, si, st, t)
		case "tx":
			if st.Tx.Mode == "view" || st.Tx.Mode == "ro" {
				ss.reader(m, e, &work.Step{Kind: "hold", Reader: 1, Tx: st.Tx}, t)
			} else {
				ss.writer(m, e, st.Tx, t)
			}
		}
		flush()
		if len(m.viol) > 0 {
			return
		}
		t.Pause("client.between")
	}
}

func (m *mtWorld) notOpenOK(err error) bool {
	return errors.Is(err, berrors.ErrDatabaseNotOpen) && m.closeInv
}

func (ss schedsim) writer(m *mtWorld, e *work.Exec, txn *work.Txn, t *sim.Task) {
	call := m.s.Now()
	lastRetAtInvoke := m.lastRet
	var w *model.Bucket
	id := -1
	serial := -1
	body := func(tx *bolt.Tx) bool {
		id = tx.ID()
		m.bodySerial++
		serial = m.bodySerial
		m.bodies++
		m.openTx++
		defer func() { m.bodies--; m.openTx-- }()
		if m.bodies > 1 {
			m.fail("C03", "two-writers", "two write transaction bodies run at the same time (txid %d)", id)
			return false
		}
		base := m.versions[id-1]
		if base == nil {
			// the predecessor released the writer lock but its Commit has not
			// returned to its caller yet
			base = m.inflight[id-1]
		}
		if base == nil {
			m.fail("C03", "txid-gap", "write transaction got id %d but no committed version %d exists (ids must be consecutive)", id, id-1)
			return false
		}
		if m.versions[id] != nil {
			m.fail("C03", "txid-reused", "write transaction got id %d which is already committed", id)
			return false
		}
		if id-1 < lastRetAtInvoke {
			m.fail("C03", "stale-writer", "write transaction %d started after commit %d had returned but builds on %d", id, lastRetAtInvoke, id-1)
			return false
		}
		w = base.Clone()
		for _, op := range txn.Ops {
			e.ApplyOp(tx, w, op, true)
			if e.Failed() {
				return false
			}
		}
		return true
	}
	var err error
	committed := false
	setInflight := false
	switch txn.Mode {
	case "update":
		func() {
			defer func() {
				if r := recover(); r != nil {
					if r != work.PanicBody {
						panic(r)
					}
					err = work.ErrBody
				}
			}()
			err = m.db.Update(func(tx *bolt.Tx) error {
				if !body(tx) {
					return work.ErrBody
				}
				switch txn.End {
				case "error":
					return work.ErrBody
				case "panic":
					panic(work.PanicBody)
				}
				m.inflight[id] = w
				setInflight = true
				return nil
			})
		}()
		if m.notOpenOK(err) {
			return
		}
		if txn.End == "error" || txn.End == "panic" || e.Failed() {
			if !errors.Is(err, work.ErrBody) {
				m.fail("C03", "body-error", "Update with failing body returned %v", err)
			}
		} else if why, faulted := m.faultedBody[serial]; faulted {
			if err == nil {
				m.fail("C08", "swallowed-error", "Update returned nil although %s failed inside its commit", why)
			}
			m.probes["commit-failed-by-injected-fault"]++
		} else if m.limitSeen && errors.Is(err, berrors.ErrMaxSizeReached) {
			m.probes["commit-refused-by-size-limit"]++
		} else if err != nil {
			m.fail("C03", "unexpected-error", "Update returned %v", err)
		} else {
			committed = true
		}
	default:
		tx, berr := m.db.Begin(true)
		if m.notOpenOK(berr) {
			return
		}
		if berr != nil {
			m.fail("C03", "begin-error", "Begin(true): %v", berr)
			return
		}
		ok := body(tx)
		if ok && txn.End == "commit" {
			m.inflight[id] = w
			setInflight = true
			err = tx.Commit()
			if why, faulted := m.faultedBody[serial]; faulted {
				if err == nil {
					m.fail("C08", "swallowed-error", "Commit returned nil although %s failed inside it", why)
				}
				m.probes["commit-failed-by-injected-fault"]++
				if serial%2 == 0 {
					_ = tx.Rollback() // the `defer tx.Rollback()` idiom after a failed Commit
				}
			} else if m.limitSeen && errors.Is(err, berrors.ErrMaxSizeReached) {
				m.probes["commit-refused-by-size-limit"]++
				if serial%2 == 0 {
					_ = tx.Rollback() // the `defer tx.Rollback()` idiom; the other half relies on Commit having cleaned up
				}
			} else if err != nil {
				m.fail("C03", "unexpected-error", "Commit returned %v", err)
			} else {
				committed = true
			}
		} else {
			if rerr := tx.Rollback(); rerr != nil {
				m.fail("C03", "unexpected-error", "Rollback returned %v", rerr)
			}
		}
	}
	if setInflight && m.inflight[id] == w {
		// (a writer whose commit failed may return after a successor has re-used its id)
		delete(m.inflight, id)
	}
	if committed {
		m.versions[id] = w
		if m.disk != nil && m.disk.Record {
			m.disk.Marker("commit-returned", id)
		}
		if id > m.lastRet {
			m.lastRet = id
		}
		m.commits++
		m.hist = append(m.hist, porcupine.Operation{ClientId: 0, Input: verOp{true, id}, Call: int64(call), Output: id, Return: int64(m.s.Now())})
	} else {
		m.probes["writer-no-commit"]++
	}
}

func (ss schedsim) reader(m *mtWorld, e *work.Exec, st *work.Step, t *sim.Task) {
	call := m.s.Now()
	lastRetAtInvoke := m.lastRet
	tx, err := m.db.Begin(false)
	if m.notOpenOK(err) {
		return
	}
	if err != nil {
		m.fail("C02", "begin-error", "Begin(false): %v", err)
		return
	}
	m.openTx++
	id := tx.ID()
	m.readersOpen[id]++
	want := m.versions[id]
	if want == nil {
		want = m.inflight[id]
	}
	if want == nil {
		m.fail("C02", "unknown-version", "read transaction sees txid %d which no writer committed or is committing", id)
	} else if id < lastRetAtInvoke {
		m.fail("C02", "stale-snapshot", "read transaction began after commit %d had returned but sees txid %d", lastRetAtInvoke, id)
	}
	m.hist = append(m.hist, porcupine.Operation{ClientId: 1, Input: verOp{false, id}, Call: int64(call), Output: id, Return: int64(m.s.Now())})
	dumps := st.Reader
	if dumps < 1 {
		dumps = 1
	}
	// the byte slices handed out by the first dump are kept (not copied) and re-read just before the
	// transaction ends: memory a read transaction returned stays valid and unchanged for its whole life
	type heldSlice struct {
		b   []byte
		sum uint64
	}
	var held []heldSlice
	e.Hold = func(k, v []byte) {
		if len(held) < 96 {
			held = append(held, heldSlice{k, hashBytes(k)})
			if len(v) > 0 {
				held = append(held, heldSlice{v, hashBytes(v)})
			}
		}
	}
	defer func() { e.Hold = nil }()
	for i := 0; i < dumps && want != nil && len(m.viol) == 0 && !e.Failed(); i++ {
		if st.Tx != nil {
			for _, op := range st.Tx.Ops {
				e.ApplyOp(tx, want, op, false)
			}
		}
		got := e.Dump(tx)
		if d := model.Diff(got, want); d != "" {
			m.fail("C02", "snapshot-changed", "reader at txid %d (newest returned commit %d, dump %d of %d): %s", id, m.lastRet, i+1, dumps, d)
		}
		if m.lastRet > id {
			m.probes["dump-by-old-reader"]++
			m.readerAge[m.lastRet-id]++
		}
		m.probes["reader-dumps"]++
		if i+1 < dumps && !m.s.Draining {
			for k := 0; k < 3; k++ {
				t.Pause("reader.hold")
			}
		}
	}
	if len(m.viol) == 0 {
		for _, h := range held {
			if hashBytes(h.b) != h.sum {
				m.fail("C02", "returned-memory-changed", "reader at txid %d: a byte slice returned earlier in the transaction (%d bytes) has changed under it", id, len(h.b))
				break
			}
		}
		m.probes["held-slices-rechecked"] += len(held)
	}
	m.openTx--
	m.readersOpen[id]--
	if rerr := tx.Rollback(); rerr != nil {
		m.fail("C02", "rollback-error", "reader Rollback: %v", rerr)
	}
}

func hashBytes(b []byte) uint64 {
	h := uint64(14695981039346656037)
	for _, c := range b {
		h ^= uint64(c)
		h *= 1099511628211
	}
	return h
}

// yieldWriter is the io.Writer handed to Tx.WriteTo: it yields to the
// scheduler on every Write call so that writers commit during the copy.
type yieldWriter struct {
	buf    bytes.Buffer
	t      *sim.Task
	s      *sim.Sched
	writes int
}

func (w *yieldWriter) Write(p []byte) (int, error) {
	w.writes++
	if !w.s.Draining {
		w.t.Pause("backup.write")
	}
	return w.buf.Write(p)
}

// crashStates (C01's concurrent arm): the I/O log of a multi-task run is cut at sampled points, with sampled
// subsets of the not yet synced units persisted, and every image must recover to an acknowledged or in-flight
// version - whatever the interleaving of the writers queueing for the writer lock was.
func (ss schedsim) crashStates(c *Case, m *mtWorld, pe *work.Exec, disk *sim.Disk, path string, out *Outcome) {
	startTxid := -1
	for id := range m.versions {
		if startTxid < 0 || id < startTxid {
			startTxid = id
		}
	}
	var states []sim.CrashSpec
	var recov []work.OpenOpts
	if len(c.Extra) > 0 {
		var pinned crashExtra
		if json.Unmarshal(c.Extra, &pinned) == nil {
			states, recov = pinned.States, pinned.Recover
		}
	}
	if len(states) == 0 {
		states, recov = enumerateCrashStates(disk, c, sim.NewTape(c.Seed, c.Run, "crash"))
	}
	ve := work.NewExec(path, m.cfg)
	ve.Versions = m.versions
	rpath := path + ".rec"
	defer os.Remove(rpath)
	for si, spec := range states {
		if PastDeadline() {
			break
		}
		Tick()
		acked := startTxid
		for i := 0; i < spec.Point && i < len(disk.Log); i++ {
			if ev := &disk.Log[i]; ev.Kind == "marker" && ev.Marker == "commit-returned" && ev.Txid > acked {
				acked = ev.Txid
			}
		}
		img, nvol, nkept := disk.Image(spec)
		// under concurrency a commit may be complete on disk long before its task is scheduled again and records
		// "returned": what may legitimately be found is any version from the last *recorded* return up to the
		// newest transaction whose meta write had been issued before the crash point
		maxMeta := acked
		ps := m.cfg.PageSize
		for i := 0; i <= spec.Point && i < len(disk.Log); i++ {
			ev := &disk.Log[i]
			if ev.Kind == "write" && ev.Off < int64(2*ps) && len(ev.Data) >= dec.PageHeaderSize+dec.MetaSize && (i < spec.Point || spec.InUnits > 0) {
				if mt := dec.ParseMeta(ev.Data[dec.PageHeaderSize:]); mt.Valid && int(mt.Txid) > maxMeta {
					maxMeta = int(mt.Txid)
				}
			}
		}
		inflight := -1
		if m.versions[acked+1] != nil {
			inflight = acked + 1
		}
		if im, lerr := dec.Load(img); lerr == nil {
			if wi, ok := im.Winner(); ok {
				if t := int(im.Metas[wi].Txid); t > acked && t <= maxMeta {
					inflight = t
					if t > acked+1 {
						out.probe("recovered-a-commit-completed-before-its-return-was-recorded", 1)
					}
				}
			}
		}
		if nvol > 0 {
			out.fault("crash-with-unsynced-units(concurrent run)", 1)
			if nkept > 0 && nkept < nvol {
				out.fault("crash-partial-subset-persisted(concurrent run)", 1)
			}
		}
		out.Evals++
		ro := work.OpenOpts{GivePageSize: true, Freelist: "array"}
		if si < len(recov) {
			ro = recov[si]
		}
		if v := checkCrashState(ve, img, spec, acked, inflight, rpath, ro, out); v != nil {
			v.Msg = "concurrent run: " + v.Msg
			m.viol = append(m.viol, v)
			ex := crashExtra{States: []sim.CrashSpec{spec}, Recover: []work.OpenOpts{ro}}
			c.Extra, _ = json.Marshal(ex)
			return
		}
	}
	out.probe("concurrent-crash-states", len(states))
}

// failingWriter accepts limit bytes and then fails (a full or broken destination).
type failingWriter struct {
	limit, n int64
	t        *sim.Task
	s        *sim.Sched
}

func (w *failingWriter) Write(p []byte) (int, error) {
	if !w.s.Draining {
		w.t.Pause("backup.write")
	}
	if w.n+int64(len(p)) > w.limit {
		k := int(w.limit - w.n)
		w.n = w.limit
		return k, sim.ErrInjectedENOSPC
	}
	w.n += int64(len(p))
	return len(p), nil
}

func (ss schedsim) backup(m *mtWorld, e *work.Exec, ci, si int, st *work.Step, t *sim.Task) {
	fail := func(class, f string, a ...any) { m.fail("C14", class, f, a...) }
	lastRetAtInvoke := m.lastRet
	tx, err := m.db.Begin(false)
	if m.notOpenOK(err) {
		return
	}
	if err != nil {
		fail("begin-error", "Begin(false): %v", err)
		return
	}
	m.openTx++
	id := tx.ID()
	want := m.versions[id]
	if want == nil {
		want = m.inflight[id]
	}
	if want == nil || id < lastRetAtInvoke {
		fail("unknown-version", "backup transaction sees txid %d (newest returned commit %d)", id, lastRetAtInvoke)
	}
	variant := st.Reader % 10
	if st.Reader >= 10 && !m.s.Draining {
		for i := 0; i < 12; i++ {
			t.Pause("backup.age") // let writers get ahead: an old snapshot is copied
		}
	}
	size := tx.Size()
	var img []byte
	dst := filepath.Join(filepath.Dir(m.db.Path()), fmt.Sprintf("backup-%d-%d", ci, si))
	os.Remove(dst)
	defer os.Remove(dst)
	switch variant {
	case 4, 5:
		// the destination fails: the copy must say so (a truncated backup reported as success is no backup)
		var cerr error
		what := ""
		if variant == 4 {
			limit := []int64{0, 40, int64(m.cfg.PageSize) + 100, 2*int64(m.cfg.PageSize) + 1, size / 2, size - 1}[(ci+si+id)%6]
			if limit >= size {
				limit = size - 1
			}
			fw := &failingWriter{limit: limit, t: t, s: m.s}
			_, cerr = tx.WriteTo(fw)
			what = fmt.Sprintf("WriteTo into a writer that fails after %d of %d bytes", limit, size)
			m.probes["backup-writer-fails"]++
		} else {
			cerr = tx.CopyFile("/dev/full", 0600)
			what = "CopyFile to /dev/full (every write fails with ENOSPC)"
			m.probes["backup-device-full"]++
		}
		if cerr == nil {
			fail("copy-error-swallowed", "%s returned nil: an incomplete copy is reported as success", what)
		}
		m.openTx--
		if rerr := tx.Rollback(); rerr != nil {
			fail("rollback-error", "Rollback: %v", rerr)
		}
		return
	case 1:
		if err := tx.CopyFile(dst, 0600); err != nil {
			fail("copy-error", "CopyFile: %v", err)
		}
		img, _ = os.ReadFile(dst)
		m.probes["backup-copyfile"]++
	default:
		if variant >= 2 {
			tx.WriteFlag = os.O_SYNC
			m.probes["backup-writeflag"]++
		}
		if variant == 3 && !m.pathReplaced {
			// the file at the database's path is replaced by a different file
			// (same length, other content) while the transaction is open: the
			// copy must still come from the file the transaction is based on
			moved := m.db.Path() + ".moved"
			if fi, serr := os.Stat(m.db.Path()); serr == nil && os.Rename(m.db.Path(), moved) == nil {
				decoy := make([]byte, fi.Size())
				for i := range decoy {
					decoy[i] = 0xD7
				}
				_ = os.WriteFile(m.db.Path(), decoy, 0600)
				m.pathReplaced = true
				m.probes["backup-path-replaced"]++
				defer func() {
					_ = os.Remove(m.db.Path())
					_ = os.Rename(moved, m.db.Path())
					m.pathReplaced = false
				}()
			}
		}
		yw := &yieldWriter{t: t, s: m.s}
		n, err := tx.WriteTo(yw)
		if err != nil {
			fail("copy-error", "WriteTo: %v", err)
		}
		img = yw.buf.Bytes()
		if n != int64(len(img)) {
			fail("size", "WriteTo returned %d but wrote %d bytes", n, len(img))
		}
		m.probes["backup-writeto"]++
		m.probes["backup-write-calls"] += yw.writes
	}
	if m.lastRet > id {
		m.probes["backup-of-old-snapshot"]++
	}
	m.openTx--
	if rerr := tx.Rollback(); rerr != nil {
		fail("rollback-error", "Rollback: %v", rerr)
	}
	if len(m.viol) > 0 || want == nil {
		return
	}
	if int64(len(img)) != size {
		fail("size", "the copy has %d bytes, Tx.Size() reported %d", len(img), size)
		return
	}
	// the independent decoder's verdict on the copy
	im, derr := dec.Load(img)
	if derr != nil {
		fail("copy-undecodable", "%v", derr)
		return
	}
	wi, ok := im.Winner()
	if !ok {
		fail("copy-undecodable", "no valid meta in the copy")
		return
	}
	for mi := 0; mi < 2; mi++ {
		if !im.Metas[mi].Valid {
			fail("copy-meta-invalid", "meta page %d of the copy does not validate (%s): a copy must be a complete, valid database file", mi, im.Metas[mi].Why)
			return
		}
	}
	res := im.Decode(wi)
	if res.Fatal != "" || !res.Clean() {
		fail("copy-accounting", "pages of the copy are not all accounted for: %s", res.ProblemString())
		return
	}
	if d := model.Diff(res.Root, want); d != "" {
		fail("copy-content", "the copy of txid %d decodes to different content: %s", id, d)
		return
	}
	// and the real code's
	if variant != 1 {
		if err := os.WriteFile(dst, img, 0600); err != nil {
			return
		}
	}
	cdb, oerr := bolt.Open(dst, 0600, &bolt.Options{})
	if oerr != nil {
		fail("copy-open", "the copy does not open: %v", oerr)
		return
	}
	_ = cdb.View(func(ctx *bolt.Tx) error {
		got := e.Dump(ctx)
		if d := model.Diff(got, want); d != "" {
			fail("copy-content", "the opened copy of txid %d differs from the snapshot: %s", id, d)
		}
		for cerr := range ctx.Check() {
			fail("copy-check", "Tx.Check on the copy: %v", cerr)
			break
		}
		return nil
	})
	if cerr := cdb.Close(); cerr != nil {
		fail("copy-close", "%v", cerr)
	}
	m.probes["backups-verified"]++
}

func (ss schedsim) Shrinks(c *Case) []*Case {
	var out []*Case
	// fewer injected faults first (C08's concurrent arm)
	if len(c.Extra) > 0 {
		var sx schedExtra
		if json.Unmarshal(c.Extra, &sx) == nil && len(sx.Faults) > 1 {
			for i := range sx.Faults {
				d := c.Clone()
				x := schedExtra{Faults: append(append([]sim.FaultPlan(nil), sx.Faults[:i]...), sx.Faults[i+1:]...)}
				d.Extra, _ = json.Marshal(x)
				out = append(out, d)
			}
		}
	}
	// drop whole clients, then steps of clients, then ops; the sched tape is
	// kept (reading past its end yields 0 = lowest enabled task)
	for i := range c.Clients {
		d := c.Clone()
		d.Clients = append(d.Clients[:i:i], d.Clients[i+1:]...)
		out = append(out, d)
	}
	for i, cl := range c.Clients {
		for j := len(cl) - 1; j >= 0; j-- {
			d := c.Clone()
			d.Clients[i] = append(d.Clients[i][:j:j], d.Clients[i][j+1:]...)
			out = append(out, d)
		}
	}
	for i, cl := range c.Clients {
		for j, st := range cl {
			if st.Kind != "tx" {
				continue
			}
			n := len(st.Tx.Ops)
			for _, k := range []int{n / 2, 1} {
				if k < 1 {
					continue
				}
				for a := 0; a+k <= n; a += k {
					d := c.Clone()
					ops := d.Clients[i][j].Tx.Ops
					d.Clients[i][j].Tx.Ops = append(ops[:a:a], ops[a+k:]...)
					out = append(out, d)
					if len(out) > 800 {
						return out
					}
				}
			}
		}
	}
	// truncate the schedule tape (suffix becomes "always the lowest enabled task")
	if st := c.Tapes["sched"]; len(st) > 1 {
		for _, k := range []int{len(st) / 2, len(st) * 3 / 4, len(st) - 1} {
			d := c.Clone()
			d.Tapes["sched"] = d.Tapes["sched"][:k]
			out = append(out, d)
		}
	}
	// prelude
	for _, d := range shrinkProgram(c) {
		out = append(out, d)
		if len(out) > 1500 {
			break
		}
	}
	sort.SliceStable(out, func(i, j int) bool { return false })
	if c.Prop == "C01" {
		// a pinned crash state refers to log indices of the unshrunk run: candidates re-enumerate
		for _, d := range out {
			d.Extra = nil
		}
	}
	return out
}

func init() {
	ss := schedsim{}
	real := "real: all of bbolt (tag verif), real goroutines, real sync primitives, real file + mmap; simulated: which goroutine runs next (token scheduler at lock-probe / yield / I/O hook points, decisions from the seeded sched tape), the clock (testing/synctest bubble), map iteration order"
	register(&Info{Prop: "C02", Engine: ss, Level: "exploration", QuickS: 60, ThoroughS: 900, RealStub: real,
		Rule:   "one evaluation = one seeded multi-task run: 1-2 writer tasks and 1-5 reader tasks of different ages on one DB, pre-empted at hook points by tape decisions; each reader dumps its whole view in chunks (yielding inside ForEach) repeatedly while writers commit, roll back, reuse pages, grow and remap, and every dump must equal the model version of the reader's txid; the txid must not be older than the newest commit that had returned when Begin was invoked. distinct_nontrivial = distinct schedule fingerprints (hash of the (task, hook point) decision sequence) among runs with at least one commit and one pre-emption",
		Assume: []string{"interleavings below hook granularity are not explored", "Go memory-model races are invisible under token scheduling"}})
	register(&Info{Prop: "C14", Engine: ss, Level: "exploration", QuickS: 60, ThoroughS: 900, RealStub: real,
		Rule:   "one evaluation = one seeded multi-task run with 1-2 writer tasks and 1-2 backup tasks: a backup begins a read transaction at a tape-chosen moment (optionally ages it while writers commit), copies it with WriteTo into a writer that yields to the scheduler on every Write call (or CopyFile, or WriteTo with WriteFlag) while writers keep committing, reusing pages, growing and remapping; a copy whose destination fails part-way (a writer that returns an error after a tape-chosen number of bytes; CopyFile to /dev/full) must return an error; otherwise the copy must have exactly Tx.Size() bytes, decode cleanly (all pages accounted for) to the model version of the backup's txid, open with the real code, dump equal and pass Tx.Check. distinct_nontrivial = distinct schedule fingerprints among runs with a commit and a pre-emption",
		Assume: []string{"interleavings below hook granularity are not explored", "which meta slot wins in the copy is not asserted"}})
	register(&Info{Prop: "C03", Engine: altEngine{[]Engine{ss, ss, ss, batchsim{}}}, Level: "exploration", QuickS: 60, ThoroughS: 900, RealStub: real,
		Rule:   "every fourth run index is the Batch arm (batchsim engine under the same scheduler and the fake clock): 1-8 tasks issue DB.Batch calls, plain Update callers compete, and in two thirds of these runs a task calls DB.Close while Batch calls are queued behind a MaxBatchDelay timer, running or still arriving; every call must return once the clock may advance (a call that never returns = lost wake-up), a nil return means its effect is committed exactly once (read after reopening), an error is the call's own or, after Close was invoked, ErrDatabaseNotOpen, and then nothing of the call is committed. In a third of the other runs a task forbids file growth for a while (DB.MaxSize = current size): commits that need new pages fail with the size-limit error - no version, no blocked task afterwards. The other run indices: one evaluation = one seeded multi-task run: 1-4 writer tasks (Update / Begin+Commit / rollback / failing / panicking bodies), readers, a Stats caller and sometimes a late Close; oracles: never two writer bodies at once, committed ids consecutive, every read of a writer equals the model built from its predecessors in id order plus its own writes, failed bodies leave no trace, porcupine linearizability of the (txid) history stamped with event sequence numbers, deadlock = no enabled task and no timer, Close returns only after open transactions finished. distinct_nontrivial as for C02",
		Assume: []string{"interleavings below hook granularity are not explored", "race freedom is not decided by this arm (token scheduling orders everything)"}})
}
