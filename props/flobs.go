package props

import (
	"fmt"
	"sort"

	bolt "go.etcd.io/bbolt"
	"go.etcd.io/bbolt/internal/common"
	fl "go.etcd.io/bbolt/internal/freelist"
	"go.etcd.io/bbolt/xverif/work"
)

// flObserver is the in-system arm of C09: it watches every exported freelist
// call the real DB makes (hook H7) and checks each result against the state
// the allocator was in before the call, as the property states it.
type flObserver struct {
	free     map[uint64]bool
	pending  map[uint64]uint64 // id -> txid that freed it
	alloc    map[uint64]uint64 // id -> txid that allocated it
	readers  []uint64
	begin    *flState // state right after the ReleasePendingPages that began the current write tx
	rolled   bool     // a Rollback was seen; the following (NoSync)Reload must restore `begin`
	viol     []*work.Violation
	probes   map[string]int
	path     string
	disabled bool
}

type flState struct {
	free    map[uint64]bool
	pending map[uint64]uint64
}

func newFLObserver(path string) *flObserver {
	return &flObserver{free: map[uint64]bool{}, pending: map[uint64]uint64{}, alloc: map[uint64]uint64{}, probes: map[string]int{}, path: path}
}

func (o *flObserver) fail(f string, a ...any) {
	if len(o.viol) < 5 {
		o.viol = append(o.viol, &work.Violation{Prop: "C09", Class: "allocator-in-system", Msg: fmt.Sprintf(f, a...)})
	}
}

func (o *flObserver) snap(f fl.Interface) (map[uint64]bool, map[uint64]uint64) {
	fr, pe := fl.VerifSnapshot(f)
	free := make(map[uint64]bool, len(fr))
	for _, id := range fr {
		free[uint64(id)] = true
	}
	pend := map[uint64]uint64{}
	for tx, ids := range pe {
		for _, id := range ids {
			pend[uint64(id)] = uint64(tx)
		}
	}
	return free, pend
}

func hasRunIn(free map[uint64]bool, n int) bool {
	ids := make([]uint64, 0, len(free))
	for id := range free {
		ids = append(ids, id)
	}
	sort.Slice(ids, func(i, j int) bool { return ids[i] < ids[j] })
	run := 0
	for i, id := range ids {
		if i > 0 && id == ids[i-1]+1 {
			run++
		} else {
			run = 1
		}
		if run >= n {
			return true
		}
	}
	return false
}

// On is the observer callback.
func (o *flObserver) On(db *bolt.DB, f fl.Interface, ev *fl.VerifEvent) {
	if db.Path() != o.path || o.disabled {
		return
	}
	o.probes["fl-"+ev.Call]++
	free, pend := o.snap(f)
	switch ev.Call {
	case "Allocate":
		s := ev.Ret
		if s == 0 {
			if hasRunIn(o.free, ev.N) {
				o.fail("Allocate(%d) by tx %d returned 0 although %d consecutive free pages existed", ev.N, ev.Txid, ev.N)
			}
			break
		}
		if s < 2 {
			o.fail("Allocate handed out page %d", s)
		}
		for k := uint64(0); k < uint64(ev.N); k++ {
			if !o.free[s+k] {
				o.fail("Allocate(%d) by tx %d returned %d but page %d was not free (pending by tx %d: %v)", ev.N, ev.Txid, s, s+k, o.pending[s+k], o.pending[s+k] != 0)
			}
			if free[s+k] {
				o.fail("Allocate(%d) returned %d but page %d is still free afterwards", ev.N, s, s+k)
			}
			o.alloc[s+k] = uint64(ev.Txid)
		}
	case "Free":
		for k := uint64(0); k <= uint64(ev.Overflow); k++ {
			id := uint64(ev.Pgid) + k
			if free[id] {
				o.fail("Free(tx %d, page %d): page %d became directly reusable", ev.Txid, ev.Pgid, id)
			}
			if pend[id] != uint64(ev.Txid) {
				o.fail("Free(tx %d, page %d): page %d is not pending for that transaction afterwards", ev.Txid, ev.Pgid, id)
			}
		}
	case "AddReadonlyTXID":
		o.readers = append(o.readers, uint64(ev.Txid))
	case "RemoveReadonlyTXID":
		for k, r := range o.readers {
			if r == uint64(ev.Txid) {
				o.readers = append(o.readers[:k:k], o.readers[k+1:]...)
				break
			}
		}
	case "ReleasePendingPages":
		for id := range free {
			if o.free[id] {
				continue
			}
			t, wasPending := o.pending[id]
			if !wasPending {
				o.fail("ReleasePendingPages made page %d free which was neither free nor pending", id)
				continue
			}
			a := o.alloc[id]
			for _, r := range o.readers {
				if r >= a && r+1 <= t {
					o.fail("ReleasePendingPages freed page %d (allocated by tx %d, freed by tx %d) although the version of open reader %d can contain it", id, a, t, r)
				}
			}
			delete(o.alloc, id)
			o.probes["fl-released-pages"]++
		}
		if len(o.readers) == 0 && len(pend) != 0 {
			o.fail("ReleasePendingPages with no reader registered left %d pages pending", len(pend))
		}
		if len(o.readers) > 0 {
			o.probes["fl-release-with-readers"]++
		}
		o.begin = &flState{free: free, pending: pend}
		o.rolled = false
	case "Rollback":
		o.rolled = true
		for id, a := range o.alloc {
			if a == uint64(ev.Txid) {
				delete(o.alloc, id)
			}
		}
	case "Reload", "NoSyncReload":
		if o.rolled && o.begin != nil {
			// rolling a transaction back restores exactly the prior state
			for id := range free {
				if !o.begin.free[id] {
					o.fail("after Rollback+%s page %d is free but it was not free when the transaction began", ev.Call, id)
					break
				}
			}
			for id := range o.begin.free {
				if !free[id] {
					o.fail("after Rollback+%s page %d is no longer free although it was free when the transaction began", ev.Call, id)
					break
				}
			}
			if len(pend) != len(o.begin.pending) {
				o.fail("after Rollback+%s %d pages are pending, %d were when the transaction began", ev.Call, len(pend), len(o.begin.pending))
			}
			o.probes["fl-rollback-restores-state"]++
		}
		o.rolled = false
	}
	// counts agree with the sets
	if f.FreeCount() != len(free) || f.PendingCount() != len(pend) {
		o.fail("after %s: FreeCount/PendingCount %d/%d disagree with the sets %d/%d", ev.Call, f.FreeCount(), f.PendingCount(), len(free), len(pend))
	}
	for id := range pend {
		if free[id] {
			o.fail("after %s: page %d is both free and pending", ev.Call, id)
			break
		}
		if !f.Freed(common.Pgid(id)) {
			o.fail("after %s: Freed(%d) is false for a pending page", ev.Call, id)
			break
		}
	}
	o.free, o.pending = free, pend
}
