#!/bin/bash
# evalwt.sh <patch.diff> <tag> <prop> [more props...] : run the named checks against a scratch worktree of /repo
# with the patch applied (VERIF_REPO; /repo itself is not touched). quick first, thorough (short budget) if quick misses.
patch=$1; tag=$2; shift 2
cd /verif || exit 2
mkdir -p out/logs
wt=/dev/shm/evalwt-$tag
rm -rf $wt; git -C /repo worktree prune; git -C /repo worktree add -q --detach $wt HEAD || exit 2
trap 'git -C /repo worktree remove --force '$wt EXIT
git -C $wt apply --3way "$patch" >/dev/null 2>&1 || { echo "patch does not apply"; exit 2; }
for p in "$@"; do
  VERIF_REPO=$wt VERIF_BUDGET_S=${SEED_QUICK_S:-45} ./vcheck $p --tier quick > out/logs/wt.$tag.$p.quick.log 2>&1; rc=$?
  echo "$tag $p quick rc=$rc: $(grep -m1 '^violation' out/logs/wt.$tag.$p.quick.log | cut -c1-300)"
  if [ $rc -ne 1 ]; then
    VERIF_REPO=$wt VERIF_BUDGET_S=${SEED_THOROUGH_S:-240} ./vcheck $p --tier thorough > out/logs/wt.$tag.$p.thorough.log 2>&1; rc=$?
    echo "$tag $p thorough rc=$rc: $(grep -m1 '^violation' out/logs/wt.$tag.$p.thorough.log | cut -c1-300)"
  fi
done
