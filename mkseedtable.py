#!/usr/bin/env python3
"""Rewrites the seeded-changes table in DESIGN.md from seeded/*/meta.json."""
import json, glob, os, re
SUMMARY = {
 "C01a": "Tx.write skips its fdatasync when DB.grow already fsynced in the same commit (data pages never flushed before the meta write)",
 "C02a": "tx.rollback(): freelist.Reload -> freelist.Read (pending pages of open readers become allocatable after a failed/panicking commit) - same patch as C08a",
 "C06a": "same patch as C08a (third independent sub-agent)",
 "C08a": "tx.rollback(): freelist.Reload -> freelist.Read",
 "C03a": "beginRWTx: the not-opened early return no longer unlocks rwlock",
 "C04a": "Bucket.free resets the whole bucket header (sequence lost when a paged bucket becomes inline again)",
 "C05a": "Cursor.Seek drops the flags returned by next() when moving to the next leaf (nested bucket returned with a value)",
 "C07a": "tx.rollback() skips the freelist reload when tx.pages is empty (pages taken from the freelist by a commit that fails after tx.write stay leaked)",
 "C10a": "RemoveReadonlyTXID looks the id up by bisection although swap-removal unsorts the slice (a closed reader stays registered)",
 "C11a": "getPageSizeFromFirstMeta trusts meta 0's page size even when its checksum is wrong",
 "C14a": "WriteTo ignores sameFile's boolean (WriteFlag copy reads a replaced file)",
 "C16a": "Batch starts a full batch with go batch.run() instead of trigger() (runs twice when the timer also fired)",
 "C18a": "MaxSize pre-check picks the growth regime from the current map size (remap across AllocSize exceeds the limit)",
 "C15a": "Compact: `v == nil` -> `len(v) == 0` (empty values become empty buckets)",
 "C06b": "hashMap.Init returns before resetting its maps when given an empty list (pending pages stay free after a physical rollback)",
 "C12a": "Open reads the page size from the file only when Options.PageSize == 0",
 "C13a": "hashMap.Allocate re-inserts the remainder span at pid+1 instead of pid+n",
 "C19a": "key-order check passes the running minimum instead of the parent's separator as the child's lower bound",
 "C09a": "releaseRange's swap-remove no longer moves alloctx with ids",
 "C20a": "RevertMetaPage swaps the two results of GetRootPage (always copies meta 0 over meta 1)",
 "C02b": "shared.Rollback restores aborted frees as allocated by the rolled-back txid (pages released while an older reader is open)",
 "C17a": "flock returns nil when the timeout elapses (shadowed err)",
 "C05b": "Cursor.prev no longer repositions with first() when it runs off the beginning (cursor left on an emptied leading leaf)",
 "C01b": "ReleasePendingPages moved from beginRWTx to the start of Commit (pages freed by DeleteBucket in this very transaction are reused and overwritten before the meta write)",
 "C03b": "removeTx merges statistics under statlock.RLock instead of Lock (data race on OpenTxN / Stats())",
 "C04b": "MoveBucket drops the cached child before the destination checks (a move that fails on a name clash discards the bucket's same-transaction edits)",
 "C08b": "commitFreelist no longer rolls the transaction back when allocating the freelist page fails (writer lock stays held, pages leak)",
 "C12b": "WriteTo computes the meta checksum once: meta 1 of every copy carries meta 0's checksum",
 "C17b": "Open no longer closes (unlocks) the file when getPageSize fails: a failed open of a < 2 KiB file keeps the flock",
 "C19b": "page type predicates test a bit instead of the exact value (invalid types containing the expected bit pass the check)",
 "C07b": "same patch as C08b (independent sub-agent): the C07 view is the page leak that remains after the caller's tx.Rollback()",
 "C14b": "WriteTo sizes the data copy from the DB's current high-water mark instead of the transaction's (the copy is longer than Tx.Size() when writers grew the file)",
 "C15b": "bbolt compact opens the source read-write (a source last committed with NoFreelistSync gets a freelist flushed into it)",
 "C16b": "batch.run detaches only a not-yet-full batch from db.batch (a full batch that shrinks after a failure accepts new calls that are never run)",
 "C20b": "surgery freelist abandon re-stamps the meta page id from the txid parity (wrong for hot backups / reverted files)",
 "C10b": "tx.rollback(): Reload/NoSyncReload -> Read/Init (the pending pages of open readers become allocatable after a physically failed commit; both freelist-sync modes)",
 "C13b": "tx.rollback() chooses scan-vs-read by db.NoFreelistSync instead of hasSyncedFreelist() (the still-referenced on-disk freelist page is counted free)",
 "C18b": "Commit's spill-failure path uses nonPhysicalRollback (pages already taken from the freelist are never put back)",
 "C03c": "DB.close stops the pending batch's timer and drops the batch (queued Batch callers are never answered)",
 "C08c": "tx.rollback() releases the writer lock before reloading the freelist (a queued writer allocates pages that the reload then frees again)",
 "C11b": "mmap() fails when either meta page has a non-checksum validation error (one damaged magic/version byte makes Open fail)",
 "C01c": "shared.Free puts the pages of a multi-page freelist straight on the free list (the same commit overwrites the freelist the durable meta still points at)",
 "C09b": "hashMap.Init no longer resets freePagesCount (after a Reload the count is too large and Write serialises page id 0 entries)",
 "C12c": "Bucket.inlineable consults only the buckets opened in this transaction (a small bucket that holds a sub-bucket is written inline)",
 "C17c": "mmap()'s error path calls invalidate() instead of munmap() (the leaked mapping keeps a read-only handle's flock after a failed Open)",
 "C14c": "CopyFile's deferred Close overwrites the error of WriteTo (a truncated backup is reported as success)",
 "C04c": "DeleteBucket collects nested bucket names with ForEach and v == nil instead of ForEachBucket (a key put with a nil value looks like a bucket)",
 "C16c": "batch.run sends a shadowed outer err to the callers (always nil: a batch whose commit failed reports success)",
 "C07c": "tx.rollback(): NoSyncReload -> Init in the NoFreelistSync branch (pending pages of open readers are also free after a physical rollback)",
 "C19c": "freelist Read de-duplicates the ids it loads (a page listed twice as free is never reported)",
 "C06c": "nonPhysicalRollback skips freelist.Rollback when tx.pages is empty (a rolled-back DeleteBucket leaves live pages pending; the next writer frees and overwrites them)",
 "C15c": "Compact sets the new bucket's sequence with SetInSequence (header only): empty buckets and buckets cut off by the tx-size limit lose their sequence",
 "C05c": "Cursor.keyValue indexes the in-memory node with a uint16 (positions beyond 65535 in one uncommitted leaf wrap around)",
 "C20c": "surgery freelist abandon returns early when meta page 0 has no freelist (meta page 1 keeps pointing at one)",
 "C02c": "ReleasePendingPages moved from beginRWTx to the start of Tx.Commit under a newly added metalock acquisition (same idea as C01b, independent)",
 "C13c": "MoveBucket's same-bucket test loses its RootPage() != 0 guard (distinct inline buckets compare as the same bucket; inline-ness depends on the page size)",
 "C11c": "DB.meta() accepts the higher-txid meta on magic and version alone (a meta page with a bad checksum can be selected)",
 "C18c": "the MaxSize pre-check in allocate starts one page below the size grow() will truncate to",
 "C09c": "RemoveReadonlyTXID finds the txid by binary search although swap-removal unsorts the list (same idea as C10a, independent)",
 "C10c": "Commit's spill-failure path uses nonPhysicalRollback (same patch as C18b, independent): pages taken from the free list by the failed transaction are lost",
 "C01d": "writeMeta drops the error of the fdatasync that follows the meta write (shadowed err): a commit whose final flush failed is acknowledged",
 "C03d": "batch.run's Update closure returns a shadowed nil: a batch whose function failed after writing commits the partial writes",
 "C14d": "WriteTo sizes its meta-page buffer with the OS page size instead of the database's",
 "C16d": "batch.run's failIdx hoisted out of the retry loop (stale index: innocent calls re-run and committed again)",
 "C17d": "the data file is mapped PROT_READ|PROT_WRITE for read-write handles (memory returned by read transactions becomes a writable view)",
 "C02d": "RemoveReadonlyTXID removes every reader registered with that txid (slices.DeleteFunc): a second reader of the same version loses its protection",
 "C04d": "Bucket.rebalance skips cached child buckets without a materialised root node",
 "C06d": "ReleasePendingPages no longer sorts the reader list (the minimum is taken from an unsorted list after a swap-removal)",
 "C07d": "DeleteBucket skips the nested-bucket scan when the child's root page id is 0 (a bucket moved into a still-inline bucket in the same transaction is leaked)",
 "C05d": "Cursor.Seek gets a fast path that returns the current element when the cursor already sits on the requested key (stale after a mutation of that key)",
 "C19d": "recursivelyCheckBucket returns silently when the bucket's root page was already reached (a second reference through a bucket header is never reported)",
 "C01e": "tx.rollback() reloads the freelist only when tx.pages is non-empty, and Tx.write empties tx.pages first (same idea as C07a, independent)",
 "C06d": "DB.meta() accepts the higher-txid meta on magic and version alone (same patch as C11c, independent): after a torn meta write the next commit overwrites the newest valid meta",
 "C08d": "tx.rollback() reloads the freelist from the failed transaction's own (uncommitted) freelist page instead of the committed one",
 "C12d": "SetSequence/NextSequence materialise the root node only for inline buckets (a sequence change of an otherwise untouched paged bucket is not written)",
 "C20d": "common.CopyFile (first step of every surgery command) truncates the copy to the high-water mark read from meta page 0 when the file has 16 MiB of slack (stale when meta 1 is the active one)",
 "C15d": "Compact caches resolved destination buckets in a map keyed by the bucket path joined with / (distinct paths whose joined names coincide share a bucket)",
 "C18d": "Commit calls grow() on every commit, not only when the high-water mark moved (grow is not MaxSize-checked: a file without slack is extended past the limit)",
 "C03e": "commitFreelist no longer rolls back when allocating the freelist page fails (same patch as C08b/C07b, independent)",
 "C16e": "batch.run takes the address of the failing call's slot before the swap-remove (trySolo goes to the wrong caller; the failing one never hears back)",
 "C13d": "mlock/munlock lose their clamp to the map size (slice bounds panic when the file overtakes the map with Mlock set)",
 "C09d": "shared.Rollback leaves pages whose allocating tx is known in the free/pending cache after their free is rolled back",
 "C07e": "hashMap.Init returns before resetting its maps when the list is empty (same idea as C06b, independent)",
 "C10d": "removeTx returns early when statistics are off (a closed reader is never unregistered under NoStatistics)",
}
rows = []
for d in sorted(glob.glob("/verif/seeded/*/meta.json")):
    m = json.load(open(d))
    sid = m["id"]
    caught = "; ".join(m.get("checks_run", []))
    caught = caught.replace("evalseed.sh: ", "")
    rows.append(f"| {sid} | {m['breaks_property']} | {SUMMARY.get(sid, '')} | {m['needs_to_manifest']} | {caught} |")
table = "| id | property | the change | needs in order to manifest | what the checks report |\n|---|---|---|---|---|\n" + "\n".join(rows)
p = "/verif/DESIGN.md"
s = open(p).read()
if "SEEDED_TABLE_PLACEHOLDER" in s:
    s = s.replace("SEEDED_TABLE_PLACEHOLDER", "<!-- seeded-table-begin -->\n" + table + "\n<!-- seeded-table-end -->")
else:
    s = re.sub(r"<!-- seeded-table-begin -->.*?<!-- seeded-table-end -->", "<!-- seeded-table-begin -->\n" + table.replace("\\", "\\\\") + "\n<!-- seeded-table-end -->", s, flags=re.S)
open(p, "w").write(s)
print(len(rows), "rows")
