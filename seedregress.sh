#!/bin/bash
# seedregress.sh : re-run, for every kept seeded change, the quick check of the property it breaks
# against a scratch worktree of /repo with the change applied (VERIF_REPO; /repo itself is not touched).
# SEED_ONLY=<regex> restricts the run to matching ids. Prints one line per change; exit 0 iff every change is reported (rc=1) by its check.
cd "$(dirname "$0")"
miss=0
for d in seeded/*/; do
  id=$(basename $d)
  [ -f $d/patch.diff ] || continue
  if [ -n "$SEED_ONLY" ] && ! echo "$id" | grep -Eq "$SEED_ONLY"; then continue; fi
  if grep -q obsolete_after_fix $d/meta.json; then echo "$id skipped (no longer observable after a fix: see meta.json)"; continue; fi
  prop=$(python3 -c "import json;print(json.load(open('$d/meta.json'))['breaks_property'])")
  wt=/dev/shm/seedwt-$id
  rm -rf $wt; git -C /repo worktree add -q --detach $wt HEAD || continue
  if git -C $wt apply --3way $PWD/$d/patch.diff >/dev/null 2>&1; then
    VERIF_REPO=$wt VERIF_BUDGET_S=${SEED_BUDGET_S:-40} ./vcheck $prop --tier quick > out/logs/regress.$id.log 2>&1; rc=$?
    if [ $rc -ne 1 ]; then
      VERIF_REPO=$wt VERIF_BUDGET_S=${SEED_THOROUGH_S:-240} ./vcheck $prop --tier thorough > out/logs/regress.$id.thorough.log 2>&1; rc2=$?
      echo "$id $prop quick rc=$rc thorough rc=$rc2 $(grep -m1 '^violation' out/logs/regress.$id.thorough.log | cut -c1-160)"
      [ $rc2 -ne 1 ] && miss=$((miss+1))
    else
      echo "$id $prop quick rc=1 $(grep -m1 '^violation' out/logs/regress.$id.log | cut -c1-160)"
    fi
  else
    echo "$id patch does not apply"; miss=$((miss+1))
  fi
  git -C /repo worktree remove --force $wt
done
echo "missed: $miss"
exit $((miss > 0))
