package sim

import (
	bolt "go.etcd.io/bbolt"
	fl "go.etcd.io/bbolt/internal/freelist"
)

// World is the set of simulator components behind bbolt's verif hooks for
// one run. Any component may be nil.
type World struct {
	Disk     *Disk
	Sched    *Sched
	Order    *Tape                                                // decides map iteration orders and hashmap span picks when MapOrder == 2
	MapOrder int                                                  // 0 ascending/lowest, 1 descending/highest, 2 tape-chosen
	FLObs    func(db *bolt.DB, f fl.Interface, ev *fl.VerifEvent) // f is the observed (underlying) freelist
	OnWrite  func(db *bolt.DB, off int64, n int)                  // observer called before every pwrite
	OnPoint  func(db *bolt.DB, point string)                      // observer called at every yield point (before parking)
}

func (w *World) perm(n int) []int {
	switch w.MapOrder {
	case 1:
		p := make([]int, n)
		for i := range p {
			p[i] = n - 1 - i
		}
		return p
	case 2:
		if w.Order == nil {
			return nil
		}
		p := make([]int, n)
		for i := range p {
			p[i] = i
		}
		for i := n - 1; i > 0; i-- {
			j := w.Order.Intn(i + 1)
			p[i], p[j] = p[j], p[i]
		}
		return p
	}
	return nil
}

func (w *World) pick(n int) int {
	switch w.MapOrder {
	case 1:
		return n - 1
	case 2:
		if w.Order != nil {
			return w.Order.Intn(n)
		}
	}
	return 0
}

// Install makes this world the target of every hook in the process.
func (w *World) Install() {
	h := &bolt.VerifHooks{Order: w.perm}
	if w.Disk != nil || w.OnWrite != nil {
		h.Write = func(db *bolt.DB, b []byte, off int64, real func([]byte, int64) (int, error)) (int, error) {
			if w.Sched != nil {
				w.Sched.Yield(db, "io.write")
			}
			if w.OnWrite != nil {
				w.OnWrite(db, off, len(b))
			}
			if w.Disk != nil {
				return w.Disk.Write(db, b, off, real)
			}
			return real(b, off)
		}
		h.IO = func(db *bolt.DB, op string, arg int64) error {
			if w.Sched != nil {
				w.Sched.Yield(db, "io."+op)
			}
			if w.Disk != nil {
				return w.Disk.IO(db, op, arg)
			}
			return nil
		}
	} else if w.Sched != nil {
		h.Write = func(db *bolt.DB, b []byte, off int64, real func([]byte, int64) (int, error)) (int, error) {
			w.Sched.Yield(db, "io.write")
			return real(b, off)
		}
		h.IO = func(db *bolt.DB, op string, arg int64) error {
			w.Sched.Yield(db, "io."+op)
			return nil
		}
	}
	if w.Sched != nil {
		h.Lock = w.Sched.Lock
		h.LockObj = w.Sched.LockObj
		h.Yield = w.Sched.Yield
		if w.OnPoint != nil {
			h.Yield = func(db *bolt.DB, point string) {
				w.OnPoint(db, point)
				w.Sched.Yield(db, point)
			}
		}
		h.OnceEnter = w.Sched.OnceEnter
		h.OnceExit = w.Sched.OnceExit
	}
	if w.FLObs != nil || w.Sched != nil {
		h.Freelist = func(db *bolt.DB, f fl.Interface) fl.Interface {
			o := fl.VerifObserve(f, func(ev *fl.VerifEvent) {
				if w.FLObs != nil {
					w.FLObs(db, f, ev)
				}
			})
			if w.Sched != nil {
				// scheduling points in front of the coarse freelist operations: harmless while the caller holds
				// the lock it should hold (the others wait at their lock probe), revealing when it does not
				if vo, ok := o.(*fl.VerifObserved); ok {
					vo.Before = func(call string) {
						switch call {
						case "AddReadonlyTXID", "RemoveReadonlyTXID", "ReleasePendingPages", "Rollback", "Reload", "NoSyncReload":
							w.Sched.Yield(db, "fl."+call)
						}
					}
				}
			}
			return o
		}
	}
	pick := w.pick
	fl.VerifPick.Store(&pick)
	bolt.VerifResetBatches()
	bolt.VerifInstall(h)
}

// Uninstall removes every hook.
func Uninstall() {
	bolt.VerifInstall(nil)
	fl.VerifPick.Store(nil)
}
