// Package sim holds the simulator core: choice tapes, shadow disk, scheduler.
package sim

import (
	"hash/fnv"
)

// Tape is a stream of choices. In exploration mode values come from a
// SplitMix64 generator keyed by (seed, run, label) and are recorded; in replay
// mode they come from an explicit list and reading past the end yields 0,
// which every generator treats as its simplest choice.
type Tape struct {
	Label  string
	state  uint64
	replay bool
	fixed  []uint64
	pos    int
	Rec    []uint64
}

func mix(x uint64) uint64 {
	x += 0x9E3779B97F4A7C15
	z := x
	z = (z ^ (z >> 30)) * 0xBF58476D1CE4E5B9
	z = (z ^ (z >> 27)) * 0x94D049BB133111EB
	return z ^ (z >> 31)
}

// NewTape creates an exploring tape for (seed, run, label).
func NewTape(seed, run uint64, label string) *Tape {
	h := fnv.New64a()
	h.Write([]byte(label))
	return &Tape{Label: label, state: mix(mix(seed) ^ mix(run*0x100000001B3+1) ^ h.Sum64())}
}

// ReplayTape creates a tape that replays vals.
func ReplayTape(label string, vals []uint64) *Tape {
	return &Tape{Label: label, replay: true, fixed: vals}
}

func (t *Tape) raw() uint64 {
	t.state += 0x9E3779B97F4A7C15
	z := t.state
	z = (z ^ (z >> 30)) * 0xBF58476D1CE4E5B9
	z = (z ^ (z >> 27)) * 0x94D049BB133111EB
	return z ^ (z >> 31)
}

// Intn returns a choice in [0,n). The recorded value is the reduced one.
func (t *Tape) Intn(n int) int {
	if n <= 1 {
		return 0
	}
	var v uint64
	if t.replay {
		if t.pos < len(t.fixed) {
			v = t.fixed[t.pos] % uint64(n)
		}
		t.pos++
	} else {
		v = t.raw() % uint64(n)
	}
	t.Rec = append(t.Rec, v)
	return int(v)
}

// U64 returns a full-width choice.
func (t *Tape) U64() uint64 {
	var v uint64
	if t.replay {
		if t.pos < len(t.fixed) {
			v = t.fixed[t.pos]
		}
		t.pos++
	} else {
		v = t.raw()
	}
	t.Rec = append(t.Rec, v)
	return v
}

// Chance is true with probability num/den (false is the simple choice).
func (t *Tape) Chance(num, den int) bool { return t.Intn(den) >= den-num }

// Pick chooses an index by weight; index 0 should be the simplest choice.
func (t *Tape) Pick(weights ...int) int {
	total := 0
	for _, w := range weights {
		total += w
	}
	v := t.Intn(total)
	for i, w := range weights {
		if v < w {
			return i
		}
		v -= w
	}
	return len(weights) - 1
}

// Tapes is a set of labelled tapes for one run.
type Tapes struct {
	Seed, Run uint64
	replay    map[string][]uint64
	m         map[string]*Tape
	order     []string
}

func NewTapes(seed, run uint64) *Tapes {
	return &Tapes{Seed: seed, Run: run, m: map[string]*Tape{}}
}

func ReplayTapes(vals map[string][]uint64) *Tapes {
	return &Tapes{replay: vals, m: map[string]*Tape{}}
}

// Get returns the tape with the given label, creating it on first use.
func (ts *Tapes) Get(label string) *Tape {
	if t, ok := ts.m[label]; ok {
		return t
	}
	var t *Tape
	if ts.replay != nil {
		t = ReplayTape(label, ts.replay[label])
	} else {
		t = NewTape(ts.Seed, ts.Run, label)
	}
	ts.m[label] = t
	ts.order = append(ts.order, label)
	return t
}

// Recorded returns everything drawn so far, per label.
func (ts *Tapes) Recorded() map[string][]uint64 {
	out := map[string][]uint64{}
	for _, l := range ts.order {
		out[l] = append([]uint64(nil), ts.m[l].Rec...)
	}
	return out
}
