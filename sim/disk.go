package sim

import (
	"errors"
	"fmt"
	"syscall"

	bolt "go.etcd.io/bbolt"
)

// IOEvent is one entry of the shadow disk's log.
type IOEvent struct {
	Kind   string // write fdatasync truncate fsync mmap munmap mlock munlock marker
	Off    int64
	Data   []byte // copy of the bytes really written (writes only)
	Arg    int64
	Marker string // begin commit-returned open-call open-returned close
	Txid   int
	Err    string // injected error, if any
}

// FaultPlan fails one I/O call: the K-th call (0-based) among those issued
// while the disk is armed.
type FaultPlan struct {
	K    int    `json:"k"`
	Kind string `json:"kind"` // eio | enospc | short
	Only string `json:"only,omitempty"`
}

var (
	ErrInjectedEIO    = fmt.Errorf("xverif injected: %w", syscall.EIO)
	ErrInjectedENOSPC = fmt.Errorf("xverif injected: %w", syscall.ENOSPC)
)

// Disk is the shadow disk: it observes (and may fail) every I/O call bbolt
// issues against one database file, and keeps enough to build crash images.
type Disk struct {
	Path   string // only this DB path is tracked; others pass through untouched
	Record bool   // keep copies of written bytes
	Base   []byte // file content when recording started (durable by definition)
	Log    []IOEvent

	curOff  int64 // offset of the write being judged (-1: not a write)
	Armed   bool
	Plan    *FaultPlan
	Multi   []FaultPlan // several faults in one run: each fires at its own armed-call index K (concurrent arms)
	FiredN  int         // faults fired so far (Multi)
	OnFire  func(op, kind string) // observer: a Multi fault is about to fire
	Calls   int    // faultable calls seen while armed
	Fired   string // description of the fault that fired
	FiredAt int    // log index of the failed call
	FiredOp string
	Counts  map[string]int // I/O calls by kind
	ROWrite int            // write/sync/truncate calls issued by a read-only handle

	AfterEvent func(i int) // observer (e.g. C06 monitor)

	PageSize       int  // to recognise meta page writes
	MetaWritten    bool // a write to page 0/1 happened since the disk was armed
	FiredAfterMeta bool
	Veto           func(op string, afterMeta bool) bool
	ArmedCalls     []string // ops seen while armed (probe pass)
}

// Arm starts (or stops) the fault window.
func (d *Disk) Arm(on bool) {
	d.Armed = on
	if on {
		d.MetaWritten = false
	}
}

func NewDisk(path string) *Disk { return &Disk{Path: path, Counts: map[string]int{}, FiredAt: -1} }

func (d *Disk) tracked(db *bolt.DB) bool { return d.Path == "" || db.Path() == d.Path }

// Marker appends a harness marker to the log.
func (d *Disk) Marker(m string, txid int) int {
	d.Log = append(d.Log, IOEvent{Kind: "marker", Marker: m, Txid: txid})
	return len(d.Log) - 1
}

func (d *Disk) shouldFail(op string) (bool, string) {
	if d.Armed && d.Plan == nil {
		d.ArmedCalls = append(d.ArmedCalls, op)
	}
	if d.Armed && d.Multi != nil {
		k := d.Calls
		d.Calls++
		for _, pl := range d.Multi {
			if pl.K != k || (pl.Only != "" && pl.Only != op) {
				continue
			}
			if d.Veto != nil && d.Veto(op, d.MetaWritten) {
				return false, ""
			}
			d.FiredAfterMeta = d.MetaWritten
			d.FiredN++
			if d.OnFire != nil {
				d.OnFire(op, pl.Kind)
			}
			return true, pl.Kind
		}
		return false, ""
	}
	if !d.Armed || d.Plan == nil || d.Fired != "" {
		return false, ""
	}
	if d.Plan.Only == "metawrite" {
		// the write of a meta page, whatever its index among the calls
		if op != "write" || d.PageSize <= 0 || d.curOff < 0 || d.curOff >= int64(2*d.PageSize) {
			return false, ""
		}
		if d.Veto != nil && d.Veto(op, d.MetaWritten) {
			return false, ""
		}
		d.FiredAfterMeta = d.MetaWritten
		return true, d.Plan.Kind
	}
	if d.Plan.Only != "" && d.Plan.Only != op {
		return false, ""
	}
	k := d.Calls
	d.Calls++
	// K < 0 designates "the fdatasync that follows the meta write" whatever its index
	if k == d.Plan.K || (d.Plan.K < 0 && op == "fdatasync" && d.MetaWritten) {
		if d.Veto != nil && d.Veto(op, d.MetaWritten) {
			return false, ""
		}
		d.FiredAfterMeta = d.MetaWritten
		return true, d.Plan.Kind
	}
	return false, ""
}

// Write is installed as the pwrite hook.
func (d *Disk) Write(db *bolt.DB, b []byte, off int64, real func([]byte, int64) (int, error)) (int, error) {
	if !d.tracked(db) {
		return real(b, off)
	}
	d.Counts["write"]++
	if db.IsReadOnly() {
		d.ROWrite++
	}
	d.curOff = off
	fail, kind := d.shouldFail("write")
	d.curOff = -1
	if fail {
		d.FiredOp = "write"
		d.FiredAt = len(d.Log)
		switch kind {
		case "short", "short72":
			n := len(b) / 2
			if d.PageSize > 0 && off < int64(2*d.PageSize) {
				n = 40 // tear the meta record itself
				if kind == "short72" {
					n = 72 // everything but the checksum: magic, version and the new txid are in, the checksum is stale
				}
			}
			if n > 0 {
				if _, err := real(b[:n], off); err != nil {
					return 0, err
				}
			}
			d.Fired = fmt.Sprintf("short write %d/%d at %d", n, len(b), off)
			ev := IOEvent{Kind: "write", Off: off, Err: "short"}
			if d.Record {
				ev.Data = append([]byte(nil), b[:n]...)
			}
			d.Log = append(d.Log, ev)
			return n, ErrInjectedEIO
		case "enospc":
			d.Fired = fmt.Sprintf("write ENOSPC at %d", off)
			d.Log = append(d.Log, IOEvent{Kind: "write", Off: off, Err: "enospc"})
			return 0, ErrInjectedENOSPC
		default:
			d.Fired = fmt.Sprintf("write EIO at %d", off)
			d.Log = append(d.Log, IOEvent{Kind: "write", Off: off, Err: "eio"})
			return 0, ErrInjectedEIO
		}
	}
	if d.Armed && d.PageSize > 0 && off < int64(2*d.PageSize) {
		d.MetaWritten = true
	}
	ev := IOEvent{Kind: "write", Off: off, Arg: int64(len(b))}
	if d.Record {
		ev.Data = append([]byte(nil), b...)
	}
	n, err := real(b, off)
	if err != nil {
		ev.Err = "real:" + err.Error()
	}
	d.Log = append(d.Log, ev)
	if d.AfterEvent != nil {
		d.AfterEvent(len(d.Log) - 1)
	}
	return n, err
}

// IO is installed as the hook for every non-write I/O call.
func (d *Disk) IO(db *bolt.DB, op string, arg int64) error {
	if !d.tracked(db) {
		return nil
	}
	d.Counts[op]++
	if db.IsReadOnly() && (op == "fdatasync" || op == "truncate" || op == "fsync") {
		d.ROWrite++
	}
	if fail, kind := d.shouldFail(op); fail {
		err := ErrInjectedEIO
		if kind == "enospc" {
			err = ErrInjectedENOSPC
		}
		d.Fired = fmt.Sprintf("%s fails (%s)", op, kind)
		d.FiredOp = op
		d.FiredAt = len(d.Log)
		d.Log = append(d.Log, IOEvent{Kind: op, Arg: arg, Err: kind})
		return err
	}
	if d.Multi != nil && op == "fdatasync" {
		d.MetaWritten = false // continuous arming: "after the meta write" refers to the current commit only
	}
	d.Log = append(d.Log, IOEvent{Kind: op, Arg: arg})
	if d.AfterEvent != nil {
		d.AfterEvent(len(d.Log) - 1)
	}
	return nil
}

// IsInjected reports whether err is (wraps) an injected fault.
func IsInjected(err error) bool {
	return errors.Is(err, ErrInjectedEIO) || errors.Is(err, ErrInjectedENOSPC)
}

// ---------------------------------------------------------------------------
// crash images

// Unit is one atomically persisted piece of a write (or a length change).
type Unit struct {
	Ev   int // log index
	Off  int64
	Data []byte
	Len  int64 // for truncate units: the new length; else -1
}

// CrashSpec selects one crash state.
type CrashSpec struct {
	Point   int    `json:"point"`    // events [0,Point) were issued completely
	InUnits int    `json:"in_units"` // leading units of event Point (a write) that were also issued
	Unit    int    `json:"unit"`     // atomic unit size in bytes
	Mode    string `json:"mode"`     // none all drop1 only1 prefix rprefix lastwrite mask random
	Arg     int    `json:"arg,omitempty"`
	Mask    uint64 `json:"mask,omitempty"` // explicit subset (mode mask) or PRNG seed (mode random)
}

func splitUnits(ev int, off int64, data []byte, u int) []Unit {
	var out []Unit
	for len(data) > 0 {
		n := int(int64(u) - off%int64(u))
		if n > len(data) {
			n = len(data)
		}
		out = append(out, Unit{Ev: ev, Off: off, Data: data[:n], Len: -1})
		off += int64(n)
		data = data[n:]
	}
	return out
}

// Volatile replays the log up to the crash point and returns the durable
// image and the list of not-yet-durable units in issue order.
func (d *Disk) Volatile(point, inUnits, unit int) (durable []byte, vol []Unit) {
	durable = append([]byte(nil), d.Base...)
	apply := func(us []Unit) {
		for _, x := range us {
			if x.Len >= 0 {
				if int64(len(durable)) < x.Len {
					durable = append(durable, make([]byte, x.Len-int64(len(durable)))...)
				} else {
					durable = durable[:x.Len]
				}
				continue
			}
			end := x.Off + int64(len(x.Data))
			if int64(len(durable)) < end {
				durable = append(durable, make([]byte, end-int64(len(durable)))...)
			}
			copy(durable[x.Off:], x.Data)
		}
	}
	for i := 0; i < len(d.Log) && i <= point; i++ {
		ev := &d.Log[i]
		if i == point {
			if ev.Kind == "write" && inUnits > 0 {
				us := splitUnits(i, ev.Off, ev.Data, unit)
				if inUnits < len(us) {
					us = us[:inUnits]
				}
				vol = append(vol, us...)
			}
			break
		}
		switch ev.Kind {
		case "write":
			if len(ev.Data) > 0 {
				vol = append(vol, splitUnits(i, ev.Off, ev.Data, unit)...)
			}
		case "truncate":
			if ev.Err == "" {
				vol = append(vol, Unit{Ev: i, Len: ev.Arg})
			}
		case "fdatasync", "fsync":
			if ev.Err == "" {
				apply(vol)
				vol = nil
			}
		}
	}
	return durable, vol
}

// Select returns which of n volatile units persist under spec.
func (s CrashSpec) Select(vol []Unit) []bool {
	n := len(vol)
	keep := make([]bool, n)
	switch s.Mode {
	case "all":
		for i := range keep {
			keep[i] = true
		}
	case "drop1":
		for i := range keep {
			keep[i] = i != s.Arg
		}
	case "only1":
		if s.Arg < n {
			keep[s.Arg] = true
		}
	case "prefix":
		for i := 0; i < n && i < s.Arg; i++ {
			keep[i] = true
		}
	case "rprefix":
		for i := 0; i < n && i < s.Arg; i++ {
			keep[n-1-i] = true
		}
	case "lastwrite":
		if n > 0 {
			last := vol[n-1].Ev
			for i := range keep {
				keep[i] = vol[i].Ev == last
			}
		}
	case "mask":
		for i := 0; i < n && i < 64; i++ {
			keep[i] = s.Mask&(1<<uint(i)) != 0
		}
	case "random":
		st := s.Mask
		for i := range keep {
			st = mix(st)
			keep[i] = int(st%100) < s.Arg
		}
	}
	return keep
}

// Image builds the file image that survives the crash described by spec.
func (d *Disk) Image(spec CrashSpec) (img []byte, nvol, nkept int) {
	durable, vol := d.Volatile(spec.Point, spec.InUnits, spec.Unit)
	keep := spec.Select(vol)
	img = durable
	for i, x := range vol {
		if !keep[i] {
			continue
		}
		nkept++
		if x.Len >= 0 {
			if int64(len(img)) < x.Len {
				img = append(img, make([]byte, x.Len-int64(len(img)))...)
			}
			// a persisted shrink is not modelled (bbolt never shrinks)
			continue
		}
		end := x.Off + int64(len(x.Data))
		if int64(len(img)) < end {
			img = append(img, make([]byte, end-int64(len(img)))...)
		}
		copy(img[x.Off:], x.Data)
	}
	return img, len(vol), nkept
}

// Final returns the image with every logged write applied (what the real
// file must contain if no I/O bypassed the hooks).
func (d *Disk) Final() []byte {
	img, _, _ := d.Image(CrashSpec{Point: len(d.Log), Unit: 1 << 20, Mode: "all"})
	return img
}
