package sim

import bolt "go.etcd.io/bbolt"

// Sched is the token scheduler (see sched_impl.go once built).
type Sched struct{}

func (s *Sched) Lock(db *bolt.DB, which int, exclusive bool, try func() bool) {}
func (s *Sched) Yield(db *bolt.DB, point string)                              {}
func (s *Sched) OnceEnter(db *bolt.DB, seq int, busy func() bool)             {}
