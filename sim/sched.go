package sim

import (
	"fmt"
	"runtime"
	"runtime/debug"
	"sort"
	"strconv"
	"strings"
	"sync"
	"testing/synctest"
	"time"

	bolt "go.etcd.io/bbolt"
)

// Token scheduler. Tasks are real goroutines inside a synctest bubble; at
// every hook point a task hands the run token back and parks on its own
// channel. The scheduler waits for quiescence (synctest.Wait), then resumes
// exactly one enabled task chosen by the tape, or advances the fake clock.

type taskState int

const (
	stReady    taskState = iota // parked at a yield point, may run
	stLock                      // parked before a lock acquisition
	stOnce                      // parked before sync.Once.Do of a batch
	stRunning                   // holds the token (or ran freely after an external wake-up)
	stExternal                  // durably blocked outside the hooks (channel, sleep)
	stDone
)

type lockKey struct {
	db    any // the *bolt.DB (batch once keys) or the lock object itself
	which int
	rw    bool // a reader-writer lock: a waiting writer blocks new readers
}

// Task is one schedulable goroutine.
type Task struct {
	Name  string
	idx   int
	s     *Sched
	wake  chan struct{}
	state taskState
	point string
	try   func() bool
	key   lockKey
	excl  bool
	goid  int64
	fn    func(*Task)
	// stalled tasks are not offered to the scheduler (a "stalled node": e.g.
	// a reader that does not run for a long time)
	stalled  bool
	adopted  bool // a goroutine bbolt spawned itself (batch trigger)
	foreign  bool // adopted at an ordinary hook: its end is not announced by OnceExit
	abortErr any
}

type abortSentinel struct{}

// Sched is the scheduler of one run.
type Sched struct {
	mu     sync.Mutex
	tape   *Tape
	tasks  []*Task
	byGoid map[int64]*Task
	// exclusive waiters per lock (writer preference of sync.RWMutex)
	pendingExcl map[lockKey]int

	Seq        int // global event sequence number (one per decision)
	Decisions  int
	MaxDec     int
	finger     uint64
	SimStart   time.Time
	MaxSimTime time.Duration
	TimeAdv    int
	Deadlock   string // non-empty: the run deadlocked; describes the lock table
	Exhausted  bool   // decision or time budget exhausted
	aborting   bool
	Trace      []string
	KeepTrace  bool
	Preempts   int // decisions that switched away from a task that was still enabled
	last       *Task
	idleAdv    int

	TimersPending bool // bbolt timers may be pending (Batch): advancing the clock is always an option
	Stickiness    int  // 0..100: probability of continuing with the task that ran last
	running       bool
	Adopted       int            // goroutines adopted at ordinary hooks
	Points        map[string]int // how often selected hook points were passed (io.*) / a task was found blocked on a lock
	Draining      bool           // decision budget used up: finish deterministically without pre-emption
	Stuck         bool           // even draining did not finish: harness trouble, never a verdict
}

// NewSched creates a scheduler drawing its decisions from tape.
func NewSched(tape *Tape) *Sched {
	return &Sched{tape: tape, byGoid: map[int64]*Task{}, pendingExcl: map[lockKey]int{}, MaxDec: 4000, MaxSimTime: 60 * time.Second}
}

func goid() int64 {
	var buf [64]byte
	n := runtime.Stack(buf[:], false)
	// "goroutine 123 ["
	s := string(buf[:n])
	s = strings.TrimPrefix(s, "goroutine ")
	if i := strings.IndexByte(s, ' '); i > 0 {
		id, _ := strconv.ParseInt(s[:i], 10, 64)
		return id
	}
	return -1
}

func (s *Sched) cur() *Task {
	id := goid()
	s.mu.Lock()
	t := s.byGoid[id]
	s.mu.Unlock()
	return t
}

// Go registers a task; it starts parked and runs when first scheduled.
func (s *Sched) Go(name string, fn func(t *Task)) *Task {
	s.mu.Lock()
	t := &Task{Name: name, idx: len(s.tasks), s: s, wake: make(chan struct{}), state: stReady, point: "start", fn: fn}
	s.tasks = append(s.tasks, t)
	s.mu.Unlock()
	go func() {
		// a memory fault in the code under test (e.g. a read through a stale
		// mapping) becomes a panic of this task instead of killing the process
		debug.SetPanicOnFault(true)
		s.mu.Lock()
		t.goid = goid()
		s.byGoid[t.goid] = t
		s.mu.Unlock()
		defer func() {
			if r := recover(); r != nil {
				if _, ok := r.(abortSentinel); !ok {
					t.abortErr = r
				}
			}
			s.mu.Lock()
			t.state = stDone
			delete(s.byGoid, t.goid)
			s.mu.Unlock()
		}()
		<-t.wake
		if s.aborting {
			panic(abortSentinel{})
		}
		fn(t)
	}()
	return t
}

func (t *Task) park(st taskState, point string) {
	s := t.s
	s.mu.Lock()
	t.state = st
	t.point = point
	s.mu.Unlock()
	<-t.wake
	if s.aborting {
		panic(abortSentinel{})
	}
}

// Pause is an explicit scheduling point in client code.
func (t *Task) Pause(point string) { t.park(stReady, point) }

// Now returns the global event sequence number (for invoke/return stamps).
func (s *Sched) Now() int { return s.Seq }

// adopt registers a goroutine the scheduler did not start (spawned by the
// code under test) the first time it reaches a hook while the run is on.
func (s *Sched) adopt(point string) *Task {
	if !s.running {
		return nil
	}
	s.mu.Lock()
	n := 0
	prefix := "adopted." + point
	for _, x := range s.tasks {
		if strings.HasPrefix(x.Name, prefix) {
			n++
		}
	}
	t := &Task{Name: fmt.Sprintf("%s.%d", prefix, n), idx: len(s.tasks), s: s, wake: make(chan struct{}), state: stRunning, adopted: true, foreign: true}
	t.goid = goid()
	s.tasks = append(s.tasks, t)
	s.byGoid[t.goid] = t
	s.Adopted++
	s.mu.Unlock()
	return t
}

// Yield is installed as bbolt's verifYield hook.
func (s *Sched) Yield(db *bolt.DB, point string) {
	t := s.cur()
	if t == nil {
		if t = s.adopt(point); t == nil {
			return
		}
	}
	t.park(stReady, point)
}

// Lock is installed as bbolt's verifLock hook: probe before acquire.
func (s *Sched) Lock(db *bolt.DB, which int, exclusive bool, try func() bool) {
	s.LockObj(struct {
		db    *bolt.DB
		which int
	}{db, which}, lockName(which), exclusive, which == bolt.VerifMmapLock, try)
}

// LockObj is installed as the hook of bbolt's self-probing lock types: called
// inside every Lock/RLock of rwlock, metalock and mmaplock (wherever in the
// code the acquisition is), before the real acquisition. Probe before acquire:
// the task parks as blocked on that lock until try() would succeed; because
// only one task runs at a time, probe-then-acquire is atomic.
func (s *Sched) LockObj(obj any, name string, exclusive, rw bool, try func() bool) {
	if name == "" {
		name = "mutex"
		if rw {
			name = "rwmutex"
		}
	}
	t := s.cur()
	if t == nil {
		if t = s.adopt("lock." + name); t == nil {
			return
		}
	}
	key := lockKey{db: obj, rw: rw}
	s.mu.Lock()
	t.try, t.key, t.excl = try, key, exclusive
	if exclusive && rw {
		s.pendingExcl[key]++
	}
	s.mu.Unlock()
	for {
		t.park(stLock, "lock."+name)
		if s.lockFree(t) {
			break
		}
	}
	s.mu.Lock()
	if exclusive && rw {
		s.pendingExcl[key]--
	}
	t.try = nil
	s.mu.Unlock()
}

func lockName(which int) string {
	switch which {
	case bolt.VerifRWLock:
		return "rwlock"
	case bolt.VerifMetaLock:
		return "metalock"
	case bolt.VerifMmapLock:
		return "mmaplock"
	}
	return "?"
}

// lockFree reports whether t's pending acquisition would succeed now.
func (s *Sched) lockFree(t *Task) bool {
	if t.try == nil {
		return true
	}
	if !t.excl && t.key.rw {
		s.mu.Lock()
		p := s.pendingExcl[t.key]
		s.mu.Unlock()
		if p > 0 {
			return false // sync.RWMutex: a waiting writer blocks new readers
		}
	}
	return t.try()
}

// OnceEnter is installed as the hook in front of batch.start.Do: goroutines
// bbolt spawned itself (go trigger(), the AfterFunc timer) are adopted here.
func (s *Sched) OnceEnter(db *bolt.DB, seq int, busy func() bool) {
	t := s.cur()
	if t == nil {
		// adopt: deterministic name from the batch sequence number
		s.mu.Lock()
		n := 0
		prefix := fmt.Sprintf("batch%d.trigger", seq)
		for _, x := range s.tasks {
			if strings.HasPrefix(x.Name, prefix) {
				n++
			}
		}
		t = &Task{Name: fmt.Sprintf("%s.%d", prefix, n), idx: len(s.tasks), s: s, wake: make(chan struct{}), state: stRunning}
		t.goid = goid()
		s.tasks = append(s.tasks, t)
		s.byGoid[t.goid] = t
		s.mu.Unlock()
		t.adopted = true // ends in OnceExit
	}
	s.mu.Lock()
	t.try = func() bool { return !busy() }
	t.key = lockKey{db: db, which: 100 + seq}
	t.excl = true
	s.mu.Unlock()
	for {
		t.park(stOnce, fmt.Sprintf("batch%d.once", seq))
		if !busy() {
			break
		}
	}
	s.mu.Lock()
	t.try = nil
	s.mu.Unlock()
}

// OnceExit is installed as the hook at the end of batch.trigger: an adopted
// goroutine ends there.
func (s *Sched) OnceExit(db *bolt.DB, seq int) {
	t := s.cur()
	if t == nil || !t.adopted {
		return
	}
	s.mu.Lock()
	t.state = stDone
	delete(s.byGoid, t.goid)
	s.mu.Unlock()
}

// Stalled marks a task as not schedulable (true) or schedulable again.
func (t *Task) SetStalled(v bool) {
	t.s.mu.Lock()
	t.stalled = v
	t.s.mu.Unlock()
}

func (s *Sched) enabled(t *Task) bool {
	switch t.state {
	case stReady:
		return !t.stalled
	case stLock, stOnce:
		return !t.stalled && s.lockFree(t)
	}
	return false
}

func (s *Sched) describe() string {
	var sb strings.Builder
	for _, t := range s.tasks {
		st := []string{"ready", "blocked-on-lock", "blocked-on-once", "running", "external", "done"}[t.state]
		fmt.Fprintf(&sb, "%s:%s@%s ", t.Name, st, t.point)
	}
	return sb.String()
}

var quanta = []time.Duration{time.Millisecond, 10 * time.Millisecond, 50 * time.Millisecond, 200 * time.Millisecond, time.Second}

// Run drives all tasks to completion (or to deadlock / budget exhaustion).
// It must be called from the bubble's root goroutine.
func (s *Sched) Run() {
	s.SimStart = time.Now()
	s.running = true
	defer func() { s.running = false }()
	for {
		synctest.Wait()
		s.mu.Lock()
		// a task that still "runs" after quiescence is durably blocked
		// outside the hooks (channel receive, sleep): external
		for _, t := range s.tasks {
			if t.state == stRunning {
				t.state = stExternal
			}
		}
		tasks := append([]*Task(nil), s.tasks...)
		s.mu.Unlock()
		var en []*Task
		alive, ext := 0, 0
		if s.Points == nil {
			s.Points = map[string]int{}
		}
		for _, t := range tasks {
			if t.state == stLock && !t.stalled && !s.lockFree(t) {
				s.Points["blocked-on-"+t.point]++
			}
			if t.state != stDone && !(t.foreign && t.state == stExternal) {
				alive++
			}
			if t.state == stExternal {
				ext++
			}
			if s.enabled(t) {
				en = append(en, t)
			}
		}
		if alive == 0 {
			return
		}
		if s.Decisions >= s.MaxDec || time.Since(s.SimStart) > s.MaxSimTime {
			s.Draining = true
			s.Exhausted = true
		}
		if s.Decisions >= 20*s.MaxDec {
			s.Stuck = true
			return
		}
		// registered tasks in registration order, then adopted goroutines by
		// their (deterministic) names
		sort.Slice(en, func(i, j int) bool {
			a, b := en[i], en[j]
			if a.adopted != b.adopted {
				return !a.adopted
			}
			if a.adopted {
				return a.Name < b.Name
			}
			return a.idx < b.idx
		})
		// options: each enabled task, plus "advance the clock" when something
		// may be waiting for time
		nopt := len(en)
		canAdv := ext > 0 || s.TimersPending
		if canAdv {
			nopt++
		}
		if len(en) == 0 {
			if !canAdv || s.idleAdv > 200 {
				s.Deadlock = s.describe()
				return
			}
		}
		s.Seq++
		s.Decisions++
		var pick int
		if len(en) == 0 || s.Draining {
			pick = 0 // drain: first enabled task; nothing enabled: advance time
		} else {
			// bias: keep running the same task most of the time so that
			// transactions make progress between pre-emptions
			if s.last != nil && s.enabled(s.last) && s.tape.Intn(100) < s.Stickiness {
				pick = -1
				for i, t := range en {
					if t == s.last {
						pick = i
					}
				}
			} else {
				pick = s.tape.Intn(nopt)
			}
		}
		if len(en) == 0 || pick == len(en) {
			q := time.Second
			if !s.Draining {
				q = quanta[s.tape.Intn(len(quanta))]
			}
			s.TimeAdv++
			if len(en) == 0 {
				s.idleAdv++
			}
			s.note("advance", q.String())
			time.Sleep(q)
			continue
		}
		s.idleAdv = 0
		t := en[pick]
		if s.last != nil && s.last != t && s.enabled(s.last) {
			s.Preempts++
		}
		s.last = t
		if strings.HasPrefix(t.point, "io.m") || t.point == "io.truncate" {
			s.Points[t.point]++
		}
		s.note(t.Name, t.point)
		s.mu.Lock()
		t.state = stRunning
		s.mu.Unlock()
		t.wake <- struct{}{}
	}
}

func (s *Sched) note(who, what string) {
	h := s.finger
	for i := 0; i < len(who); i++ {
		h = (h ^ uint64(who[i])) * 1099511628211
	}
	h = (h ^ 0xff) * 1099511628211
	for i := 0; i < len(what); i++ {
		h = (h ^ uint64(what[i])) * 1099511628211
	}
	s.finger = h
	if s.KeepTrace && len(s.Trace) < 5000 {
		s.Trace = append(s.Trace, fmt.Sprintf("%d %s %s", s.Seq, who, what))
	}
}

// Fingerprint identifies the interleaving that was executed.
func (s *Sched) Fingerprint() uint64 { return s.finger }

// Abort releases every parked task with a panic that its wrapper recovers,
// so that the bubble can end after a deadlock or budget exhaustion.
func (s *Sched) Abort() {
	s.aborting = true
	for i := 0; i < 50; i++ {
		synctest.Wait()
		s.mu.Lock()
		var parked []*Task
		for _, t := range s.tasks {
			if t.state == stReady || t.state == stLock || t.state == stOnce {
				parked = append(parked, t)
			}
		}
		s.mu.Unlock()
		if len(parked) == 0 {
			return
		}
		for _, t := range parked {
			s.mu.Lock()
			t.state = stRunning
			s.mu.Unlock()
			t.wake <- struct{}{}
			synctest.Wait()
		}
	}
}

// TaskPanics returns panics raised inside tasks (other than aborts).
func (s *Sched) TaskPanics() []string {
	var out []string
	for _, t := range s.tasks {
		if t.abortErr != nil {
			out = append(out, fmt.Sprintf("%s: %v", t.Name, t.abortErr))
		}
	}
	return out
}

// InTask reports whether the calling goroutine is one of the scheduler's tasks.
func (s *Sched) InTask() bool { return s.cur() != nil }
