#!/bin/bash
# runs every registered check's quick (or given) tier once; prints one line per check
cd "$(dirname "$0")"
tier=${1:-quick}
mkdir -p out/logs
for p in C01 C02 C03 C04 C05 C06 C07 C08 C09 C10 C11 C12 C13 C14 C15 C16 C17 C18 C19 C20; do
  s=$(date +%s)
  ./vcheck $p --tier $tier > out/logs/$p.$tier.log 2>&1
  rc=$?
  echo "$p rc=$rc $(( $(date +%s) - s ))s $(grep -c '^VIOLATION' out/logs/$p.$tier.log) viol; $(grep -c '^KNOWN-FINDING' out/logs/$p.$tier.log) known; $(tail -1 out/logs/$p.$tier.log | cut -c1-150)"
done
