// Package model is the executable reference model of bbolt's logical content:
// a tree of byte-string-keyed ordered maps, each with a counter. It knows
// nothing about pages, nodes, fill percent, inline buckets or freelists.
package model

import (
	"bytes"
	"encoding/binary"
	"fmt"
	"hash/fnv"
	"sort"
)

// Entry is either a value (B == nil) or a nested bucket.
type Entry struct {
	Val []byte
	B   *Bucket
}

// Bucket is an ordered map plus a sequence counter.
type Bucket struct {
	Seq uint64
	M   map[string]*Entry
}

func NewBucket() *Bucket { return &Bucket{M: map[string]*Entry{}} }

// Keys returns all keys (values and nested buckets) in ascending byte order.
func (b *Bucket) Keys() []string {
	ks := make([]string, 0, len(b.M))
	for k := range b.M {
		ks = append(ks, k)
	}
	sort.Strings(ks)
	return ks
}

// Clone makes a deep copy (values are immutable and shared).
func (b *Bucket) Clone() *Bucket {
	if b == nil {
		return nil
	}
	c := &Bucket{Seq: b.Seq, M: make(map[string]*Entry, len(b.M))}
	for k, e := range b.M {
		if e.B != nil {
			c.M[k] = &Entry{B: e.B.Clone()}
		} else {
			c.M[k] = &Entry{Val: e.Val}
		}
	}
	return c
}

// Lookup walks a path of bucket names from b. Returns nil if any component is
// missing or is not a bucket.
func (b *Bucket) Lookup(path [][]byte) *Bucket {
	cur := b
	for _, name := range path {
		e := cur.M[string(name)]
		if e == nil || e.B == nil {
			return nil
		}
		cur = e.B
	}
	return cur
}

// KeyN is the number of entries (values and bucket headers) in b and all
// nested buckets: what Bucket.Stats().KeyN reports on committed data.
func (b *Bucket) KeyN() int {
	n := len(b.M)
	for _, e := range b.M {
		if e.B != nil {
			n += e.B.KeyN()
		}
	}
	return n
}

// BucketN counts b and all nested buckets.
func (b *Bucket) BucketN() int {
	n := 1
	for _, e := range b.M {
		if e.B != nil {
			n += e.B.BucketN()
		}
	}
	return n
}

// Depth is the nesting depth below b (0 if no nested bucket).
func (b *Bucket) Depth() int {
	d := 0
	for _, e := range b.M {
		if e.B != nil {
			if x := 1 + e.B.Depth(); x > d {
				d = x
			}
		}
	}
	return d
}

// Diff returns "" if a and b are equal, else a description of the first
// difference in ascending key order.
func Diff(a, b *Bucket) string { return diff(a, b, "/") }

func diff(a, b *Bucket, path string) string {
	if a == nil || b == nil {
		if a == b {
			return ""
		}
		return fmt.Sprintf("%s: one side has no bucket (left=%v right=%v)", path, a != nil, b != nil)
	}
	if a.Seq != b.Seq {
		return fmt.Sprintf("%s: sequence %d != %d", path, a.Seq, b.Seq)
	}
	ka, kb := a.Keys(), b.Keys()
	i, j := 0, 0
	for i < len(ka) || j < len(kb) {
		switch {
		case j >= len(kb) || (i < len(ka) && ka[i] < kb[j]):
			return fmt.Sprintf("%s: key %s only on left", path, Q([]byte(ka[i])))
		case i >= len(ka) || kb[j] < ka[i]:
			return fmt.Sprintf("%s: key %s only on right", path, Q([]byte(kb[j])))
		}
		ea, eb := a.M[ka[i]], b.M[kb[j]]
		if (ea.B != nil) != (eb.B != nil) {
			return fmt.Sprintf("%s: key %s bucket on one side, value on the other", path, Q([]byte(ka[i])))
		}
		if ea.B != nil {
			if d := diff(ea.B, eb.B, path+Q([]byte(ka[i]))+"/"); d != "" {
				return d
			}
		} else if !bytes.Equal(ea.Val, eb.Val) {
			return fmt.Sprintf("%s: key %s value differs (left %s, right %s)", path, Q([]byte(ka[i])), Q(ea.Val), Q(eb.Val))
		}
		i++
		j++
	}
	return ""
}

// Hash is a content hash of the tree.
func (b *Bucket) Hash() uint64 {
	h := fnv.New64a()
	b.hashInto(h)
	return h.Sum64()
}

type writer interface{ Write([]byte) (int, error) }

func (b *Bucket) hashInto(h writer) {
	var u [8]byte
	binary.LittleEndian.PutUint64(u[:], b.Seq)
	h.Write(u[:])
	for _, k := range b.Keys() {
		e := b.M[k]
		binary.LittleEndian.PutUint64(u[:], uint64(len(k)))
		h.Write(u[:])
		h.Write([]byte(k))
		if e.B != nil {
			h.Write([]byte{1})
			e.B.hashInto(h)
		} else {
			h.Write([]byte{0})
			binary.LittleEndian.PutUint64(u[:], uint64(len(e.Val)))
			h.Write(u[:])
			h.Write(e.Val)
		}
	}
	h.Write([]byte{0xff})
}

// Q renders bytes compactly for messages.
func Q(b []byte) string {
	if len(b) > 24 {
		return fmt.Sprintf("%q…(%d bytes)", b[:16], len(b))
	}
	return fmt.Sprintf("%q", b)
}

// Summary renders a short description of the tree.
func (b *Bucket) Summary() string {
	return fmt.Sprintf("buckets=%d keys=%d depth=%d hash=%016x", b.BucketN(), b.KeyN(), b.Depth(), b.Hash())
}

// Cursor is the reference cursor: a position on the sorted key list.
// pos == -1 means "not positioned".
type Cursor struct {
	b    *Bucket
	keys []string
	pos  int
	// Unspecified is true while the property does not define the position:
	// before the first positioning call, and after a Seek that found no key.
	// Relative moves made in that state are not compared.
	Unspecified bool
}

func (b *Bucket) Cursor() *Cursor { return &Cursor{b: b, keys: b.Keys(), pos: -1, Unspecified: true} }

func (c *Cursor) at(i int) ([]byte, []byte, bool) {
	k := c.keys[i]
	e := c.b.M[k]
	if e.B != nil {
		return []byte(k), nil, true
	}
	v := e.Val
	if v == nil {
		v = []byte{}
	}
	return []byte(k), v, false
}

func (c *Cursor) First() (k, v []byte, isBucket bool) {
	c.Unspecified = false
	if len(c.keys) == 0 {
		c.pos = -1
		return nil, nil, false
	}
	c.pos = 0
	return c.at(0)
}

func (c *Cursor) Last() (k, v []byte, isBucket bool) {
	c.Unspecified = false
	if len(c.keys) == 0 {
		c.pos = -1
		return nil, nil, false
	}
	c.pos = len(c.keys) - 1
	return c.at(c.pos)
}

// Next moves forward; running off the end yields nil and keeps the position
// on the last key.
func (c *Cursor) Next() (k, v []byte, isBucket bool) {
	if c.pos < 0 || c.pos+1 >= len(c.keys) {
		return nil, nil, false
	}
	c.pos++
	return c.at(c.pos)
}

// Prev moves backward; running off the front yields nil and keeps the
// position on the first key.
func (c *Cursor) Prev() (k, v []byte, isBucket bool) {
	if c.pos <= 0 {
		return nil, nil, false
	}
	c.pos--
	return c.at(c.pos)
}

// Seek moves to the smallest key >= seek.
func (c *Cursor) Seek(seek []byte) (k, v []byte, isBucket bool) {
	i := sort.SearchStrings(c.keys, string(seek))
	if i >= len(c.keys) {
		// no key follows: the property does not say where the cursor is now
		c.pos = len(c.keys)
		c.Unspecified = true
		return nil, nil, false
	}
	c.Unspecified = false
	c.pos = i
	return c.at(i)
}

// Positioned reports whether the cursor is on a key.
func (c *Cursor) Positioned() bool { return c.pos >= 0 && c.pos < len(c.keys) }
