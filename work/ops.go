// Package work holds the client side of the simulation: swarm configuration,
// the operation alphabet, program generation from a tape, and execution of
// programs against a real bbolt DB side by side with the reference model.
package work

import (
	"encoding/binary"
	"fmt"
	"strings"
)

// Config is the per-run (swarm) configuration. Every field is a choice read
// from the cfg tape; the zero value is the simplest configuration.
type Config struct {
	PageSize        int    `json:"page_size"`
	Freelist        string `json:"freelist"` // "array" | "hashmap"
	NoFreelistSync  bool   `json:"no_freelist_sync,omitempty"`
	NoGrowSync      bool   `json:"no_grow_sync,omitempty"`
	InitialMmapSize int    `json:"initial_mmap_size,omitempty"`
	AllocSize       int    `json:"alloc_size,omitempty"` // 0: library default
	Mlock           bool   `json:"mlock,omitempty"`
	StrictMode      bool   `json:"strict_mode,omitempty"`
	MapOrder        int    `json:"map_order,omitempty"` // 0 ascending, 1 descending, 2 tape-chosen
	FillPct         int    `json:"fill_pct,omitempty"`  // 0: default, else 10..100
	MaxSize         int    `json:"max_size,omitempty"`
	Unit            int    `json:"unit,omitempty"` // atomic persistence unit of the shadow disk
	PreLoadFreelist bool   `json:"preload_freelist,omitempty"`
	NoStatistics    bool   `json:"no_statistics,omitempty"`
	NoSync          bool   `json:"no_sync,omitempty"` // fault-free arms only (crash safety is not promised in this mode)
}

// CurCall is one cursor call.
type CurCall struct {
	F   string `json:"f"` // first last next prev seek delete
	Key string `json:"key,omitempty"`
	Pad int    `json:"pad,omitempty"`
}

// Op is one API call inside a transaction. Every op is executable in every
// state: the model decides what the expected result (or error) is.
type Op struct {
	Kind  string    `json:"k"`
	Path  []string  `json:"p,omitempty"` // bucket path from the root; empty = root bucket
	Key   string    `json:"key,omitempty"`
	Pad   int       `json:"pad,omitempty"`  // key is Key followed by Pad filler bytes
	VLen  int       `json:"vlen,omitempty"` // value length
	VTag  uint32    `json:"vtag,omitempty"` // value content tag (unique per put)
	NilV  bool      `json:"nilv,omitempty"` // put: pass a nil slice as the (empty) value
	Dst   []string  `json:"dst,omitempty"`
	N     uint64    `json:"n,omitempty"`
	Calls []CurCall `json:"calls,omitempty"`
}

// Txn is one transaction of a client program.
type Txn struct {
	Mode string `json:"mode"` // update | rw | view | ro
	Ops  []Op   `json:"ops"`
	End  string `json:"end"` // commit | rollback | error | panic   (view/ro always end by rollback)
}

// OpenOpts are the options used for one (re)open; nil fields of Config apply.
type OpenOpts struct {
	Freelist        string `json:"freelist,omitempty"`
	NoFreelistSync  bool   `json:"no_freelist_sync,omitempty"`
	NoGrowSync      bool   `json:"no_grow_sync,omitempty"`
	InitialMmapSize int    `json:"initial_mmap_size,omitempty"`
	GivePageSize    bool   `json:"give_page_size,omitempty"`
	WrongPageSize   bool   `json:"wrong_page_size,omitempty"` // Options.PageSize set to a size the existing file does not use (the file's own must win)
	Mlock           bool   `json:"mlock,omitempty"`
	PreLoadFreelist bool   `json:"preload_freelist,omitempty"`
	ReadOnly        bool   `json:"read_only,omitempty"`
	StrictMode      bool   `json:"strict_mode,omitempty"`
	AllocSize       int    `json:"alloc_size,omitempty"`
}

// Step is one top-level event of a single-task program.
type Step struct {
	Kind   string    `json:"kind"` // tx | reopen | ropen | rcheck | rclose
	Tx     *Txn      `json:"tx,omitempty"`
	Opts   *OpenOpts `json:"opts,omitempty"`
	Reader int       `json:"reader,omitempty"`
}

// Program is a whole single-task history.
type Program struct {
	Cfg   Config `json:"cfg"`
	Steps []Step `json:"steps"`
}

// MkKey builds the key bytes of an op.
func MkKey(key string, pad int) []byte {
	if pad <= 0 {
		return []byte(key)
	}
	b := make([]byte, 0, len(key)+pad)
	b = append(b, key...)
	for i := 0; i < pad; i++ {
		b = append(b, byte('a'+i%23))
	}
	return b
}

// MkVal builds value bytes: unique per tag, self-describing, never nil.
func MkVal(vlen int, tag uint32) []byte {
	if vlen < 0 {
		vlen = 0
	}
	b := make([]byte, vlen)
	var w [8]byte
	binary.LittleEndian.PutUint32(w[:], tag)
	binary.LittleEndian.PutUint32(w[4:], uint32(vlen)^0xA5A5A5A5)
	for i := range b {
		b[i] = w[i%8] ^ byte(i>>3)
	}
	return b
}

func (o Op) String() string {
	var sb strings.Builder
	fmt.Fprintf(&sb, "%s /%s", o.Kind, strings.Join(o.Path, "/"))
	if o.Key != "" || o.Pad > 0 {
		fmt.Fprintf(&sb, " key=%q", o.Key)
		if o.Pad > 0 {
			fmt.Fprintf(&sb, "+%d", o.Pad)
		}
	}
	switch o.Kind {
	case "put":
		fmt.Fprintf(&sb, " vlen=%d tag=%d", o.VLen, o.VTag)
	case "mvb":
		fmt.Fprintf(&sb, " -> /%s", strings.Join(o.Dst, "/"))
	case "setseq":
		fmt.Fprintf(&sb, " n=%d", o.N)
	case "cursor":
		for _, c := range o.Calls {
			if c.F == "seek" {
				fmt.Fprintf(&sb, " seek(%q+%d)", c.Key, c.Pad)
			} else {
				sb.WriteString(" " + c.F)
			}
		}
	}
	return sb.String()
}

func (t Txn) String() string {
	var sb strings.Builder
	fmt.Fprintf(&sb, "tx[%s -> %s]{", t.Mode, t.End)
	for i, o := range t.Ops {
		if i > 0 {
			sb.WriteString("; ")
		}
		sb.WriteString(o.String())
	}
	sb.WriteString("}")
	return sb.String()
}

// Describe renders a program for humans (used in evidence samples).
func (p *Program) Describe(max int) []string {
	var out []string
	for i, s := range p.Steps {
		if i >= max {
			out = append(out, fmt.Sprintf("… %d more steps", len(p.Steps)-i))
			break
		}
		switch s.Kind {
		case "tx":
			str := s.Tx.String()
			if len(str) > 600 {
				str = str[:600] + "…"
			}
			out = append(out, str)
		case "reopen":
			out = append(out, fmt.Sprintf("reopen %+v", *s.Opts))
		default:
			out = append(out, fmt.Sprintf("%s reader=%d", s.Kind, s.Reader))
		}
	}
	return out
}
