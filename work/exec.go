package work

import (
	"bytes"
	"errors"
	"fmt"
	"os"
	"sort"
	"strings"
	"sync/atomic"

	bolt "go.etcd.io/bbolt"
	berrors "go.etcd.io/bbolt/errors"
	"go.etcd.io/bbolt/xverif/dec"
	"go.etcd.io/bbolt/xverif/model"
)

// Violation is one observed disagreement between bbolt and an oracle.
type Violation struct {
	Prop  string `json:"prop"`  // property the oracle belongs to
	Class string `json:"class"` // stable class name (used for shrinking and known-finding matching)
	Msg   string `json:"msg"`
	Step  int    `json:"step"`
	Op    int    `json:"op"`
}

func (v *Violation) String() string {
	return fmt.Sprintf("%s/%s at step %d op %d: %s", v.Prop, v.Class, v.Step, v.Op, v.Msg)
}

// Phase names what the executing goroutine is doing right now (read by the
// worker's real-time watchdog to classify a hang).
var Phase atomic.Value

func init() { Phase.Store("") }

// Pos is (step<<32 | op) of the op being executed (for the watchdog).
var Pos atomic.Int64

var (
	ErrBody   = errors.New("xverif: body error")
	PanicBody = "xverif: body panic"
)

// Reader is a read transaction held open across other steps.
type Reader struct {
	Tx     *bolt.Tx
	ID     int
	Expect *model.Bucket
}

// Exec executes programs against a real DB and the model.
type Exec struct {
	Path string
	Cfg  Config
	DB   *bolt.DB
	Opts OpenOpts

	Cur      *model.Bucket         // committed logical state
	Versions map[int]*model.Bucket // txid -> state
	LastTxid int

	Readers map[int]*Reader

	Viol    []*Violation
	Probes  map[string]int
	step    int
	opi     int
	capture **model.Bucket

	// knobs
	RollbackAfterFailedCommit bool // emulate `defer tx.Rollback()` after a Commit that returned an error
	AllowInvalidMeta          bool // a failed commit may have left a torn meta record in the slot it was writing
	BackupEvery               int  // >0: every n-th commit is also copied with WriteTo and the copy decoded
	FileChecks                bool // decode the file and run Tx.Check after every commit / reopen
	TolerateErr               bool // an I/O fault is being injected: Commit may fail
	DeepCursor                bool // dump also walks backwards
	LastCommitOK              bool
	LastErr                   error
	LastDec                   *dec.Result
	LastShape                 dec.Shape

	// observers
	OnBegin    func(txid int)
	OnCommitRV func(txid int, err error) // commit returned
	OnOpened   func(txid int)
	CursorStep func() // called between cursor steps / foreach items (scheduler yield)
	Hold       func(k, v []byte) // receives the very slices bbolt handed out (they must stay valid and unchanged until the tx ends)
}

func NewExec(path string, cfg Config) *Exec {
	return &Exec{Path: path, Cfg: cfg, Cur: model.NewBucket(), Versions: map[int]*model.Bucket{},
		Readers: map[int]*Reader{}, Probes: map[string]int{}}
}

func (e *Exec) fail(prop, class, f string, a ...any) {
	if len(e.Viol) < 20 {
		e.Viol = append(e.Viol, &Violation{Prop: prop, Class: class, Msg: fmt.Sprintf(f, a...), Step: e.step, Op: e.opi})
	}
}

// Failed reports whether any violation was recorded.
func (e *Exec) Failed() bool { return len(e.Viol) > 0 }

// BoltOptions converts the configuration into bbolt options.
func (e *Exec) BoltOptions(o OpenOpts) *bolt.Options {
	bo := &bolt.Options{
		NoGrowSync:      o.NoGrowSync,
		NoFreelistSync:  o.NoFreelistSync,
		InitialMmapSize: o.InitialMmapSize,
		Mlock:           o.Mlock,
		PreLoadFreelist: o.PreLoadFreelist,
		ReadOnly:        o.ReadOnly,
		MaxSize:         e.Cfg.MaxSize,
		NoStatistics:    e.Cfg.NoStatistics,
	}
	if o.Freelist == "hashmap" {
		bo.FreelistType = bolt.FreelistMapType
	} else {
		bo.FreelistType = bolt.FreelistArrayType
	}
	if o.GivePageSize {
		bo.PageSize = e.Cfg.PageSize
	}
	if o.WrongPageSize {
		bo.PageSize = e.Cfg.PageSize * 2
		if bo.PageSize > 16384 {
			bo.PageSize = 1024
		}
	}
	return bo
}

// DefaultOpts derives the first-open options from the configuration.
func (e *Exec) DefaultOpts() OpenOpts {
	return OpenOpts{Freelist: e.Cfg.Freelist, NoFreelistSync: e.Cfg.NoFreelistSync, NoGrowSync: e.Cfg.NoGrowSync,
		InitialMmapSize: e.Cfg.InitialMmapSize, GivePageSize: true, Mlock: e.Cfg.Mlock, StrictMode: e.Cfg.StrictMode,
		AllocSize: e.Cfg.AllocSize, PreLoadFreelist: e.Cfg.PreLoadFreelist}
}

// Open opens (or creates) the database file.
func (e *Exec) Open(o OpenOpts) error {
	bo := e.BoltOptions(o)
	if _, err := os.Stat(e.Path); err != nil {
		bo.PageSize = e.Cfg.PageSize // creating: the page size is always explicit
	}
	db, err := bolt.Open(e.Path, 0600, bo)
	if err != nil {
		return err
	}
	if o.AllocSize > 0 {
		db.AllocSize = o.AllocSize
	}
	db.StrictMode = o.StrictMode
	db.NoSync = e.Cfg.NoSync
	e.DB = db
	e.Opts = o
	// which version is in force?
	var id int
	verr := db.View(func(tx *bolt.Tx) error { id = tx.ID(); return nil })
	if verr != nil {
		return verr
	}
	if id < e.LastTxid {
		e.fail("C01", "txid-regressed", "open shows txid %d, last committed was %d", id, e.LastTxid)
	}
	e.LastTxid = id
	e.Versions[id] = e.Cur
	if e.OnOpened != nil {
		e.OnOpened(id)
	}
	return nil
}

// Close closes the database; all held readers are closed first.
func (e *Exec) Close() error {
	for _, id := range e.readerIDs() {
		e.CloseReader(id)
	}
	if e.DB == nil {
		return nil
	}
	if e.Cfg.NoSync && !e.DB.IsReadOnly() {
		if err := e.DB.Sync(); err != nil {
			e.fail("C04", "sync-error", "DB.Sync: %v", err)
		}
	}
	err := e.DB.Close()
	e.DB = nil
	return err
}

// Reopen closes and opens with new options, then checks content.
func (e *Exec) Reopen(o OpenOpts) {
	if err := e.Close(); err != nil {
		e.fail("C04", "close-error", "Close: %v", err)
		return
	}
	if err := e.Open(o); err != nil {
		e.fail("C04", "reopen-error", "Open after clean close: %v", err)
		return
	}
	e.Probes["reopen"]++
	e.CheckContent("reopen")
	if e.FileChecks {
		e.CheckFile("reopen")
	}
}

func errIn(err error, allowed []error) bool {
	for _, a := range allowed {
		if errors.Is(err, a) {
			return true
		}
	}
	return false
}

func errNames(es []error) string {
	if len(es) == 0 {
		return "nil"
	}
	var s []string
	for _, e := range es {
		s = append(s, e.Error())
	}
	return "one of {" + strings.Join(s, " | ") + "}"
}

// expectErr checks err against the set of documented errors that apply. An
// empty set means the call must succeed.
func (e *Exec) expectErr(what string, err error, allowed []error) bool {
	if len(allowed) == 0 {
		if err != nil {
			e.fail("C04", "unexpected-error", "%s returned %v, model expects success", what, err)
			return false
		}
		return true
	}
	if err == nil {
		e.fail("C04", "missing-error", "%s returned nil, model expects %s", what, errNames(allowed))
		return false
	}
	if !errIn(err, allowed) {
		e.fail("C04", "wrong-error", "%s returned %v, model expects %s", what, err, errNames(allowed))
		return false
	}
	return false
}

func toBytes(path []string) [][]byte {
	out := make([][]byte, len(path))
	for i, p := range path {
		out[i] = []byte(p)
	}
	return out
}

// resolve walks path in the real transaction. nil, true means "root".
func resolve(tx *bolt.Tx, path []string) (*bolt.Bucket, bool) {
	if len(path) == 0 {
		return nil, true
	}
	b := tx.Bucket([]byte(path[0]))
	for _, p := range path[1:] {
		if b == nil {
			return nil, false
		}
		b = b.Bucket([]byte(p))
	}
	return b, b != nil
}

// ApplyOpNoModel issues the API call of an op without any oracle (used by
// the free-running race arm, where results depend on the real schedule).
func (e *Exec) ApplyOpNoModel(tx *bolt.Tx, op Op, writable bool) {
	rb, ok := resolve(tx, op.Path)
	if !ok {
		return
	}
	isRoot := len(op.Path) == 0
	key := MkKey(op.Key, op.Pad)
	switch op.Kind {
	case "put":
		if !isRoot && writable {
			if op.NilV {
				_ = rb.Put(key, nil)
			} else {
				_ = rb.Put(key, MkVal(op.VLen, op.VTag))
			}
		}
	case "get":
		if !isRoot {
			_ = rb.Get(key)
		}
	case "del":
		if !isRoot && writable {
			_ = rb.Delete(key)
		}
	case "mkb", "mkbi":
		if writable && len(key) > 0 {
			if isRoot {
				_, _ = tx.CreateBucketIfNotExists(key)
			} else {
				_, _ = rb.CreateBucketIfNotExists(key)
			}
		}
	case "seq":
		if !isRoot {
			_ = rb.Sequence()
		}
	case "nextseq":
		if !isRoot && writable {
			_, _ = rb.NextSequence()
		}
	case "foreach", "cursor":
		if isRoot {
			_ = tx.ForEach(func(name []byte, b *bolt.Bucket) error { return nil })
		} else {
			_ = rb.ForEach(func(k, v []byte) error { return nil })
		}
	}
}

// ApplyOp applies one op to the real transaction and to the working model w,
// comparing every result.
func (e *Exec) ApplyOp(tx *bolt.Tx, w *model.Bucket, op Op, writable bool) {
	mb := w.Lookup(toBytes(op.Path))
	rb, ok := resolve(tx, op.Path)
	if (mb != nil) != ok {
		e.fail("C04", "bucket-presence", "bucket /%s: model present=%v, Bucket() non-nil=%v", strings.Join(op.Path, "/"), mb != nil, ok)
		return
	}
	if mb == nil {
		return
	}
	isRoot := len(op.Path) == 0
	if writable && !isRoot && rb != nil && e.Cfg.FillPct > 0 {
		// FillPercent is not persisted: a bucket reopened in a later transaction gets the run's value again
		rb.FillPercent = float64(e.Cfg.FillPct) / 100
	}
	key := MkKey(op.Key, op.Pad)
	what := op.String()
	var notW []error
	if !writable {
		notW = []error{berrors.ErrTxNotWritable}
	}
	switch op.Kind {
	case "put":
		if isRoot {
			return // the root bucket holds only buckets; Tx has no Put
		}
		val := MkVal(op.VLen, op.VTag)
		var allowed []error
		allowed = append(allowed, notW...)
		if len(key) == 0 {
			allowed = append(allowed, berrors.ErrKeyRequired)
		} else if len(key) > bolt.MaxKeySize {
			allowed = append(allowed, berrors.ErrKeyTooLarge)
		}
		if en := mb.M[string(key)]; en != nil && en.B != nil {
			allowed = append(allowed, berrors.ErrIncompatibleValue)
		}
		var err error
		if op.NilV {
			// a nil slice is the empty byte string: the key must exist afterwards with an empty value
			val = []byte{}
			err = rb.Put(key, nil)
		} else {
			err = rb.Put(key, val)
		}
		if e.expectErr(what, err, allowed) {
			mb.M[string(key)] = &model.Entry{Val: val}
		}
	case "get":
		if isRoot {
			return
		}
		got := rb.Get(key)
		en := mb.M[string(key)]
		switch {
		case en == nil || en.B != nil:
			if got != nil {
				e.fail("C04", "get-mismatch", "%s returned %s, model expects nil", what, model.Q(got))
			}
		case got == nil:
			e.fail("C04", "get-mismatch", "%s returned nil, model expects %s", what, model.Q(en.Val))
		case !bytes.Equal(got, en.Val):
			e.fail("C04", "get-mismatch", "%s returned %s, model expects %s", what, model.Q(got), model.Q(en.Val))
		}
	case "del":
		if isRoot {
			return
		}
		var allowed []error
		allowed = append(allowed, notW...)
		en := mb.M[string(key)]
		if en != nil && en.B != nil {
			allowed = append(allowed, berrors.ErrIncompatibleValue)
		}
		err := rb.Delete(key)
		if e.expectErr(what, err, allowed) && en != nil {
			delete(mb.M, string(key))
		}
	case "mkb", "mkbi":
		var allowed []error
		allowed = append(allowed, notW...)
		en := mb.M[string(key)]
		if len(key) == 0 {
			allowed = append(allowed, berrors.ErrBucketNameRequired)
		}
		if en != nil && en.B == nil {
			allowed = append(allowed, berrors.ErrIncompatibleValue)
		}
		if en != nil && en.B != nil && op.Kind == "mkb" {
			allowed = append(allowed, berrors.ErrBucketExists)
		}
		var nb *bolt.Bucket
		var err error
		switch {
		case isRoot && op.Kind == "mkb":
			nb, err = tx.CreateBucket(key)
		case isRoot:
			nb, err = tx.CreateBucketIfNotExists(key)
		case op.Kind == "mkb":
			nb, err = rb.CreateBucket(key)
		default:
			nb, err = rb.CreateBucketIfNotExists(key)
		}
		if e.expectErr(what, err, allowed) {
			if nb == nil {
				e.fail("C04", "nil-bucket", "%s returned nil bucket and nil error", what)
			}
			if en == nil {
				mb.M[string(key)] = &model.Entry{B: model.NewBucket()}
				if nb != nil && e.Cfg.FillPct > 0 {
					nb.FillPercent = float64(e.Cfg.FillPct) / 100
				}
			}
		}
	case "rmb":
		var allowed []error
		allowed = append(allowed, notW...)
		en := mb.M[string(key)]
		if en == nil {
			allowed = append(allowed, berrors.ErrBucketNotFound)
		} else if en.B == nil {
			allowed = append(allowed, berrors.ErrIncompatibleValue)
		}
		var err error
		if isRoot {
			err = tx.DeleteBucket(key)
		} else {
			err = rb.DeleteBucket(key)
		}
		if e.expectErr(what, err, allowed) {
			delete(mb.M, string(key))
		}
	case "mvb":
		md := w.Lookup(toBytes(op.Dst))
		rd, dok := resolve(tx, op.Dst)
		if (md != nil) != dok {
			e.fail("C04", "bucket-presence", "bucket /%s: model present=%v, Bucket() non-nil=%v", strings.Join(op.Dst, "/"), md != nil, dok)
			return
		}
		if md == nil {
			return
		}
		var allowed []error
		allowed = append(allowed, notW...)
		en := mb.M[string(key)]
		if en == nil {
			allowed = append(allowed, berrors.ErrBucketNotFound)
		} else if en.B == nil {
			allowed = append(allowed, berrors.ErrIncompatibleValue)
		}
		if md == mb {
			allowed = append(allowed, berrors.ErrSameBuckets)
		} else if den := md.M[string(key)]; den != nil {
			if den.B != nil {
				allowed = append(allowed, berrors.ErrBucketExists)
			} else {
				allowed = append(allowed, berrors.ErrIncompatibleValue)
			}
		}
		if en != nil && en.B != nil && len(op.Dst) > len(op.Path) && hasPrefix(op.Dst, append(append([]string(nil), op.Path...), string(key))) {
			// destination lies inside the moved bucket: no sensible result
			// exists, the call has to refuse and change nothing
			if err := tx.MoveBucket(key, rb, rd); err == nil {
				e.fail("C04", "move-into-descendant", "%s returned nil although the destination is inside the moved bucket", what)
			}
			return
		}
		err := tx.MoveBucket(key, rb, rd)
		if e.expectErr(what, err, allowed) {
			delete(mb.M, string(key))
			md.M[string(key)] = en
		}
	case "seq":
		if isRoot {
			return
		}
		if got := rb.Sequence(); got != mb.Seq {
			e.fail("C04", "sequence-mismatch", "%s returned %d, model expects %d", what, got, mb.Seq)
		}
	case "setseq":
		if isRoot {
			return
		}
		err := rb.SetSequence(op.N)
		if e.expectErr(what, err, notW) {
			mb.Seq = op.N
		}
	case "nextseq":
		if isRoot {
			return
		}
		got, err := rb.NextSequence()
		if e.expectErr(what, err, notW) {
			mb.Seq++
			if got != mb.Seq {
				e.fail("C04", "sequence-mismatch", "%s returned %d, model expects %d", what, got, mb.Seq)
			}
		}
	case "foreach":
		e.compareForEach(tx, rb, mb, isRoot, what)
	case "keyn":
		// Bucket.Stats reads committed pages only: meaningful in read-only transactions.
		if isRoot || writable {
			return
		}
		st := rb.Stats()
		if st.KeyN != mb.KeyN() {
			e.fail("C04", "keyn-mismatch", "%s Stats().KeyN=%d, model expects %d", what, st.KeyN, mb.KeyN())
		}
		if st.BucketN != mb.BucketN() {
			e.fail("C04", "bucketn-mismatch", "%s Stats().BucketN=%d, model expects %d", what, st.BucketN, mb.BucketN())
		}
	case "cursor":
		e.runCursor(tx, rb, mb, isRoot, op, writable)
	case "cdel":
		// position a cursor on key with Seek, then Cursor.Delete
		if isRoot {
			return
		}
		c := rb.Cursor()
		k, _ := c.Seek(key)
		if k == nil || !bytes.Equal(k, key) {
			// not positioned on the key: nothing to delete (the model agrees it is absent)
			if en := mb.M[string(key)]; en != nil {
				e.fail("C05", "cursor-key", "%s: Seek did not find the existing key (returned %s)", what, model.Q(k))
			}
			return
		}
		var allowed []error
		allowed = append(allowed, notW...)
		en := mb.M[string(key)]
		if en == nil {
			e.fail("C05", "cursor-key", "%s: Seek found a key the model does not have", what)
			return
		}
		if en.B != nil {
			allowed = append(allowed, berrors.ErrIncompatibleValue)
		}
		mutated := false
		if op.N == 1 && en.B == nil && writable {
			// the positioned cursor is kept while the key is overwritten through the bucket
			val := MkVal(op.VLen, op.VTag)
			if e.expectErr(what+" (put under a live cursor)", rb.Put(key, val), nil) {
				mb.M[string(key)] = &model.Entry{Val: val}
				mutated = true
			}
		} else if e.expectErr(what, c.Delete(), allowed) {
			delete(mb.M, string(key))
			mutated = writable
		}
		if mutated && !e.Failed() {
			// "you must reposition your cursor after mutating data": Seek is that repositioning, and it must see
			// the mutation - on the very cursor that was positioned on the key before
			k2, v2 := c.Seek(key)
			mk, mv, isB := mb.Cursor().Seek(key)
			e.Probes["cursor-reseek-after-mutation"]++
			if !bytes.Equal(k2, mk) || (k2 == nil) != (mk == nil) {
				e.fail("C05", "cursor-key", "%s: Seek on the same cursor after the mutation returned key %s, model expects %s", what, model.Q(k2), model.Q(mk))
			} else if mk != nil && !isB && (v2 == nil || !bytes.Equal(v2, mv)) {
				e.fail("C05", "cursor-value", "%s: Seek on the same cursor after the mutation returned value %s for key %s, model expects %s", what, model.Q(v2), model.Q(k2), model.Q(mv))
			} else if mk != nil && isB && v2 != nil {
				e.fail("C05", "cursor-value", "%s: Seek on the same cursor after the mutation returned a value for nested bucket %s", what, model.Q(k2))
			}
		}
	case "feb":
		var got []string
		var err error
		if isRoot {
			err = tx.ForEach(func(name []byte, _ *bolt.Bucket) error { got = append(got, string(name)); return nil })
		} else {
			err = rb.ForEachBucket(func(k []byte) error { got = append(got, string(k)); return nil })
		}
		if err != nil {
			e.fail("C04", "unexpected-error", "%s returned %v", what, err)
			return
		}
		var want []string
		for _, k := range mb.Keys() {
			if mb.M[k].B != nil {
				want = append(want, k)
			}
		}
		if strings.Join(got, "\x00") != strings.Join(want, "\x00") {
			e.fail("C04", "foreach-mismatch", "%s lists %d nested buckets %q, model expects %d %q", what, len(got), got, len(want), want)
		}
	case "inspect":
		if !isRoot {
			return
		}
		var cmp func(bs bolt.BucketStructure, m *model.Bucket, path string)
		cmp = func(bs bolt.BucketStructure, m *model.Bucket, path string) {
			keyN := 0
			var names []string
			for _, k := range m.Keys() {
				if m.M[k].B != nil {
					names = append(names, k)
				} else {
					keyN++
				}
			}
			if bs.KeyN != keyN || len(bs.Children) != len(names) {
				e.fail("C04", "inspect-mismatch", "Inspect at %s: keyN=%d children=%d, model expects %d and %d", path, bs.KeyN, len(bs.Children), keyN, len(names))
				return
			}
			for i, ch := range bs.Children {
				if ch.Name != names[i] {
					e.fail("C04", "inspect-mismatch", "Inspect at %s: child %d is %q, model expects %q", path, i, ch.Name, names[i])
					return
				}
				cmp(ch, m.M[names[i]].B, path+ch.Name+"/")
			}
		}
		cmp(tx.Inspect(), mb, "/")
	}
}

func (e *Exec) compareForEach(tx *bolt.Tx, rb *bolt.Bucket, mb *model.Bucket, isRoot bool, what string) {
	keys := mb.Keys()
	i := 0
	check := func(k, v []byte) error {
		if e.CursorStep != nil {
			e.CursorStep()
		}
		if i >= len(keys) {
			e.fail("C04", "foreach-mismatch", "%s yields extra key %s", what, model.Q(k))
			return ErrBody
		}
		en := mb.M[keys[i]]
		if string(k) != keys[i] {
			e.fail("C04", "foreach-mismatch", "%s item %d is %s, model expects %s", what, i, model.Q(k), model.Q([]byte(keys[i])))
			return ErrBody
		}
		if en.B != nil {
			if v != nil {
				e.fail("C04", "foreach-mismatch", "%s nested bucket %s has non-nil value", what, model.Q(k))
			}
		} else if v == nil || !bytes.Equal(v, en.Val) {
			e.fail("C04", "foreach-mismatch", "%s key %s value %s, model expects %s", what, model.Q(k), model.Q(v), model.Q(en.Val))
		}
		i++
		return nil
	}
	var err error
	if isRoot {
		err = tx.ForEach(func(name []byte, b *bolt.Bucket) error {
			if b == nil {
				e.fail("C04", "foreach-mismatch", "%s: Tx.ForEach passed a nil bucket for %s", what, model.Q(name))
			}
			return check(name, nil)
		})
	} else {
		err = rb.ForEach(check)
	}
	if err == nil && i != len(keys) {
		e.fail("C04", "foreach-mismatch", "%s yields %d keys, model expects %d", what, i, len(keys))
	}
}

func (e *Exec) runCursor(tx *bolt.Tx, rb *bolt.Bucket, mb *model.Bucket, isRoot bool, op Op, writable bool) {
	var c *bolt.Cursor
	if isRoot {
		c = tx.Cursor()
	} else {
		c = rb.Cursor()
	}
	mc := mb.Cursor()
	Phase.Store("cursor")
	defer Phase.Store("")
	for i, call := range op.Calls {
		if e.CursorStep != nil {
			e.CursorStep()
		}
		var k, v, mk, mv []byte
		var isB bool
		switch call.F {
		case "first":
			k, v = c.First()
			mk, mv, isB = mc.First()
		case "last":
			k, v = c.Last()
			mk, mv, isB = mc.Last()
		case "next":
			k, v = c.Next()
			mk, mv, isB = mc.Next()
		case "prev":
			k, v = c.Prev()
			mk, mv, isB = mc.Prev()
		case "seek":
			sk := MkKey(call.Key, call.Pad)
			k, v = c.Seek(sk)
			mk, mv, isB = mc.Seek(sk)
		default:
			continue
		}
		e.Probes["cursor-calls"]++
		if mc.Unspecified && (call.F == "next" || call.F == "prev") {
			e.Probes["cursor-unspecified-move"]++
			continue // must return (it did); the result is not defined by the property
		}
		if !bytes.Equal(k, mk) || (k == nil) != (mk == nil) {
			e.fail("C05", "cursor-key", "%s call %d (%s): key %s, model expects %s", op.String(), i, call.F, model.Q(k), model.Q(mk))
			return
		}
		if mk != nil {
			if isB {
				if v != nil {
					e.fail("C05", "cursor-value", "%s call %d (%s): nested bucket %s returned with non-nil value", op.String(), i, call.F, model.Q(k))
					return
				}
			} else if v == nil || !bytes.Equal(v, mv) {
				e.fail("C05", "cursor-value", "%s call %d (%s): key %s value %s, model expects %s", op.String(), i, call.F, model.Q(k), model.Q(v), model.Q(mv))
				return
			}
		}
	}
}

// Dump walks a transaction through the public API only.
func (e *Exec) Dump(tx *bolt.Tx) *model.Bucket {
	root := model.NewBucket()
	err := tx.ForEach(func(name []byte, b *bolt.Bucket) error {
		if b == nil {
			return fmt.Errorf("Tx.ForEach passed nil bucket for %q", name)
		}
		child := model.NewBucket()
		root.M[string(name)] = &model.Entry{B: child}
		return e.dumpBucket(b, child)
	})
	if err != nil {
		e.fail("C04", "dump-error", "dump: %v", err)
	}
	return root
}

func (e *Exec) dumpBucket(b *bolt.Bucket, out *model.Bucket) error {
	out.Seq = b.Sequence()
	var fwd []string
	err := b.ForEach(func(k, v []byte) error {
		if e.CursorStep != nil {
			e.CursorStep()
		}
		fwd = append(fwd, string(k))
		if e.Hold != nil {
			e.Hold(k, v)
		}
		if v == nil {
			nb := b.Bucket(k)
			if nb == nil {
				return fmt.Errorf("key %q has nil value but Bucket() is nil", k)
			}
			child := model.NewBucket()
			out.M[string(k)] = &model.Entry{B: child}
			return e.dumpBucket(nb, child)
		}
		val := make([]byte, len(v))
		copy(val, v)
		out.M[string(k)] = &model.Entry{Val: val}
		return nil
	})
	if err != nil {
		return err
	}
	if !sort.StringsAreSorted(fwd) {
		e.fail("C05", "order", "ForEach did not enumerate in ascending byte order")
	}
	if e.DeepCursor {
		c := b.Cursor()
		i := len(fwd) - 1
		for k, _ := c.Last(); k != nil; k, _ = c.Prev() {
			if i < 0 || string(k) != fwd[i] {
				e.fail("C05", "reverse-order", "Last/Prev walk disagrees with First/Next walk at reverse index %d (key %s)", i, model.Q(k))
				return nil
			}
			i--
		}
		if i != -1 {
			e.fail("C05", "reverse-order", "Last/Prev walk visited %d keys, First/Next visited %d", len(fwd)-1-i, len(fwd))
		}
	}
	return nil
}

// CheckContent compares a fresh read transaction's dump with the committed
// model state.
func (e *Exec) CheckContent(when string) {
	if e.DB == nil {
		return
	}
	err := e.DB.View(func(tx *bolt.Tx) error {
		got := e.Dump(tx)
		if d := model.Diff(got, e.Cur); d != "" {
			e.fail("C04", "content-mismatch", "after %s: API dump differs from model: %s", when, d)
		}
		if tx.ID() != e.LastTxid {
			e.fail("C03", "txid", "after %s: read transaction id %d, expected %d", when, tx.ID(), e.LastTxid)
		}
		return nil
	})
	if err != nil {
		e.fail("C04", "view-error", "after %s: View: %v", when, err)
	}
}

func (e *Exec) readerIDs() []int {
	ids := make([]int, 0, len(e.Readers))
	for id := range e.Readers {
		ids = append(ids, id)
	}
	sort.Ints(ids)
	return ids
}

// OpenReader begins a read transaction and remembers what it must see.
func (e *Exec) OpenReader(id int) {
	if _, dup := e.Readers[id]; dup || e.DB == nil {
		return
	}
	tx, err := e.DB.Begin(false)
	if err != nil {
		e.fail("C02", "begin-error", "Begin(false): %v", err)
		return
	}
	if tx.ID() != e.LastTxid {
		e.fail("C02", "reader-id", "reader began at txid %d, last committed is %d", tx.ID(), e.LastTxid)
	}
	e.Readers[id] = &Reader{Tx: tx, ID: tx.ID(), Expect: e.Cur}
	e.Probes["reader-open"]++
}

// CheckReader dumps through a held reader and compares with its version.
func (e *Exec) CheckReader(id int) {
	r := e.Readers[id]
	if r == nil {
		return
	}
	got := e.Dump(r.Tx)
	if d := model.Diff(got, r.Expect); d != "" {
		e.fail("C02", "snapshot-changed", "reader at txid %d (newest %d): %s", r.ID, e.LastTxid, d)
	}
	if r.ID != e.LastTxid {
		e.Probes["old-reader-checked"]++
	}
}

func (e *Exec) CloseReader(id int) {
	r := e.Readers[id]
	if r == nil {
		return
	}
	e.CheckReader(id)
	if err := r.Tx.Rollback(); err != nil {
		e.fail("C02", "rollback-error", "reader Rollback: %v", err)
	}
	delete(e.Readers, id)
}

// RunTxCapture is RunTx that also hands back the state the transaction would
// produce if it committed (used when the commit is made to fail).
func (e *Exec) RunTxCapture(t *Txn, w **model.Bucket) {
	e.capture = w
	defer func() { e.capture = nil }()
	e.RunTx(t)
}

// RunTx executes one transaction.
func (e *Exec) RunTx(t *Txn) {
	if e.DB == nil {
		return
	}
	writable := t.Mode == "update" || t.Mode == "rw"
	if writable && e.DB.IsReadOnly() {
		_, err := e.DB.Begin(true)
		if !errors.Is(err, berrors.ErrDatabaseReadOnly) {
			e.fail("C17", "ro-begin", "Begin(true) on read-only DB returned %v", err)
		}
		return
	}
	w := e.Cur
	if writable {
		w = e.Cur.Clone()
	}
	if e.capture != nil {
		*e.capture = w
	}
	handlerCalls := 0
	body := func(tx *bolt.Tx) {
		tx.OnCommit(func() { handlerCalls++ })
		if writable {
			if tx.ID() != e.LastTxid+1 {
				e.fail("C03", "txid", "write transaction id %d, expected %d", tx.ID(), e.LastTxid+1)
			}
			if e.OnBegin != nil {
				e.OnBegin(tx.ID())
			}
		} else if tx.ID() != e.LastTxid {
			e.fail("C03", "txid", "read transaction id %d, expected %d", tx.ID(), e.LastTxid)
		}
		for i, op := range t.Ops {
			e.opi = i
			Pos.Store(int64(e.step)<<32 | int64(i))
			e.ApplyOp(tx, w, op, writable)
			if e.Failed() {
				return
			}
		}
		e.opi = len(t.Ops)
	}
	var err error
	var txid int
	committed := false
	e.LastErr = nil
	switch t.Mode {
	case "update", "view":
		fn := func(tx *bolt.Tx) error {
			txid = tx.ID()
			body(tx)
			switch t.End {
			case "error":
				return ErrBody
			case "panic":
				panic(PanicBody)
			}
			return nil
		}
		func() {
			defer func() {
				if r := recover(); r != nil {
					if r != PanicBody {
						panic(r)
					}
					if t.End != "panic" {
						e.fail("C03", "panic", "unexpected panic %v", r)
					}
					err = ErrBody
				}
			}()
			if t.Mode == "update" {
				err = e.DB.Update(fn)
			} else {
				err = e.DB.View(fn)
			}
		}()
		switch {
		case t.End == "error" || t.End == "panic":
			if !errors.Is(err, ErrBody) {
				e.fail("C03", "body-error", "%s with failing body returned %v", t.Mode, err)
			}
		case err == nil:
			committed = writable
		case writable && e.TolerateErr:
			e.LastErr = err
		default:
			e.fail("C04", "unexpected-error", "%s returned %v", t.Mode, err)
		}
		if writable && e.OnCommitRV != nil && t.End != "error" && t.End != "panic" {
			e.OnCommitRV(txid, err)
		}
	case "rw", "ro":
		tx, berr := e.DB.Begin(writable)
		if berr != nil {
			e.fail("C04", "begin-error", "Begin(%v): %v", writable, berr)
			return
		}
		txid = tx.ID()
		body(tx)
		if writable && t.End == "commit" && !e.Failed() {
			err = tx.Commit()
			if e.OnCommitRV != nil {
				e.OnCommitRV(txid, err)
			}
			switch {
			case err == nil:
				committed = true
			case e.TolerateErr:
				e.LastErr = err
				if e.RollbackAfterFailedCommit {
					// the usual idiom (`defer tx.Rollback()`): harmless after a failed Commit
					if rerr := tx.Rollback(); rerr == nil {
						e.Probes["rollback-after-failed-commit-found-tx-open"]++
					}
				}
			default:
				e.fail("C04", "unexpected-error", "Commit returned %v", err)
			}
		} else {
			if rerr := tx.Rollback(); rerr != nil {
				e.fail("C04", "unexpected-error", "Rollback returned %v", rerr)
			}
		}
	}
	if writable && !e.Failed() {
		switch {
		case committed && handlerCalls != 1:
			e.fail("C03", "oncommit", "the OnCommit handler ran %d times for a committed transaction", handlerCalls)
		case !committed && handlerCalls != 0:
			e.fail("C03", "oncommit", "the OnCommit handler ran %d times for a transaction that did not commit", handlerCalls)
		}
	}
	e.LastCommitOK = committed
	if committed {
		e.Cur = w
		e.LastTxid = txid
		e.Versions[txid] = w
		e.Probes["commit"]++
	} else if writable {
		e.Probes["no-commit:"+t.End]++
	}
}

// CheckFile decodes the file with the independent decoder and compares it
// with the model, the library's own integrity check and its statistics.
func (e *Exec) CheckFile(when string) {
	data, err := os.ReadFile(e.Path)
	if err != nil {
		e.fail("C12", "read-file", "%v", err)
		return
	}
	im, err := dec.Load(data)
	if err != nil {
		e.fail("C12", "undecodable", "after %s: %v", when, err)
		return
	}
	if im.PageSize != e.Cfg.PageSize {
		e.fail("C12", "page-size", "decoder detects page size %d, configured %d", im.PageSize, e.Cfg.PageSize)
		return
	}
	wi, ok := im.Winner()
	if !ok {
		e.fail("C12", "no-valid-meta", "after %s", when)
		return
	}
	for mi := 0; mi < 2 && !e.AllowInvalidMeta; mi++ {
		if !im.Metas[mi].Valid {
			e.fail("C12", "meta-invalid", "after %s: meta page %d of a file at rest does not validate (%s): both meta pages of a cleanly written file carry magic, version 2 and a correct checksum", when, mi, im.Metas[mi].Why)
		}
	}
	res := im.Decode(wi)
	e.LastDec = res
	if int(res.Meta.Txid) != e.LastTxid {
		e.fail("C12", "meta-txid", "after %s: winning meta has txid %d, API says %d", when, res.Meta.Txid, e.LastTxid)
	}
	if wi != int(res.Meta.Txid%2) {
		e.fail("C06", "meta-slot", "after %s: newest meta (txid %d) sits in slot %d", when, res.Meta.Txid, wi)
	}
	if res.Fatal != "" {
		e.fail("C12", "undecodable", "after %s: %s", when, res.Fatal)
		return
	}
	if d := model.Diff(res.Root, e.Cur); d != "" {
		e.fail("C12", "decoder-content", "after %s: independent decoder reads different content: %s", when, d)
	}
	if !res.Clean() {
		e.fail("C07", "accounting", "after %s (txid %d): %s", when, e.LastTxid, res.ProblemString())
	}
	e.noteShape(res)
	if e.DB == nil {
		return
	}
	// the library's own view
	free := res.FreeSet()
	st := e.DB.Stats()
	if !e.Cfg.NoStatistics && !e.DB.IsReadOnly() && st.FreePageN+st.PendingPageN != len(free) {
		e.fail("C07", "stats", "after %s: Stats free %d + pending %d != %d free ids found by the decoder", when, st.FreePageN, st.PendingPageN, len(free))
	}
	verr := e.DB.View(func(tx *bolt.Tx) error {
		if tx.Size() != int64(res.Meta.Pgid)*int64(im.PageSize) {
			e.fail("C07", "size", "Tx.Size %d != hwm %d × page size", tx.Size(), res.Meta.Pgid)
		}
		n := 0
		for cerr := range tx.Check() {
			if n < 3 {
				e.fail("C07", "check", "after %s: Tx.Check: %v", when, cerr)
			}
			n++
		}
		for id := uint64(0); id < res.Meta.Pgid; id++ {
			info, perr := tx.Page(int(id))
			if perr != nil || info == nil {
				e.fail("C07", "page-info", "Tx.Page(%d): %v %v", id, info, perr)
				break
			}
			if (info.Type == "free") != free[id] {
				e.fail("C07", "page-free", "after %s: Tx.Page(%d).Type=%q but decoder says free=%v", when, id, info.Type, free[id])
				break
			}
			if fl, isHead := res.Heads[id]; isHead && !free[id] {
				want := "leaf"
				if fl == dec.FlagBranch {
					want = "branch"
				}
				if info.Type != want {
					e.fail("C07", "page-type", "Tx.Page(%d).Type=%q, decoder says %s", id, info.Type, want)
					break
				}
			}
		}
		return nil
	})
	if verr != nil {
		e.fail("C07", "view-error", "%v", verr)
	}
	if int64(len(data)) < int64(res.Meta.Pgid)*int64(im.PageSize) {
		e.fail("C07", "file-short", "file %d bytes < hwm %d pages", len(data), res.Meta.Pgid)
	}
}

func (e *Exec) noteShape(res *dec.Result) {
	s, p := res.Shape, e.LastShape
	if s.MaxDepth > p.MaxDepth {
		e.Probes["tree-deepened"]++
	}
	if s.MaxDepth < p.MaxDepth {
		e.Probes["tree-collapsed"]++
	}
	if s.BranchPages > p.BranchPages {
		e.Probes["branch-split"]++
	}
	if s.BranchPages < p.BranchPages {
		e.Probes["branch-merge"]++
	}
	if s.LeafPages > p.LeafPages {
		e.Probes["leaf-split"]++
	}
	if s.LeafPages < p.LeafPages {
		e.Probes["leaf-merge"]++
	}
	if s.OverflowPages > p.OverflowPages {
		e.Probes["overflow-alloc"]++
	}
	if s.OverflowPages < p.OverflowPages {
		e.Probes["overflow-freed"]++
	}
	if s.InlineBuckets > p.InlineBuckets {
		e.Probes["inline-bucket-added"]++
	}
	if s.PagedBuckets > p.PagedBuckets {
		e.Probes["paged-bucket-added"]++
	}
	if len(res.FreelistPages) > 1 {
		e.Probes["freelist-multipage"]++
	}
	if len(res.FreeIDs) > 0 {
		e.Probes["freelist-nonempty"]++
	}
	e.LastShape = s
}

// CheckBackup copies the current state with Tx.WriteTo and judges the copy
// with the independent decoder: exact size, both meta pages valid, all pages
// accounted for, content equal to the model.
func (e *Exec) CheckBackup(when string) {
	if e.DB == nil {
		return
	}
	var buf bytes.Buffer
	var size int64
	err := e.DB.View(func(tx *bolt.Tx) error {
		size = tx.Size()
		_, werr := tx.WriteTo(&buf)
		return werr
	})
	if err != nil {
		e.fail("C14", "copy-error", "after %s: WriteTo: %v", when, err)
		return
	}
	e.Probes["backup-copies-decoded"]++
	img := buf.Bytes()
	if int64(len(img)) != size {
		e.fail("C14", "size", "after %s: the copy has %d bytes, Tx.Size() reported %d", when, len(img), size)
		return
	}
	im, derr := dec.Load(img)
	if derr != nil {
		e.fail("C12", "copy-undecodable", "after %s: %v", when, derr)
		return
	}
	for mi := 0; mi < 2; mi++ {
		if !im.Metas[mi].Valid {
			e.fail("C12", "copy-meta-invalid", "after %s: meta page %d of the copy written by WriteTo does not validate (%s)", when, mi, im.Metas[mi].Why)
			return
		}
	}
	wi, _ := im.Winner()
	res := im.Decode(wi)
	if res.Fatal != "" || !res.Clean() {
		e.fail("C14", "copy-accounting", "after %s: %s", when, res.ProblemString())
		return
	}
	if d := model.Diff(res.Root, e.Cur); d != "" {
		e.fail("C14", "copy-content", "after %s: the copy decodes to different content: %s", when, d)
	}
	// the older meta of the copy must describe the same tree (it is the fallback)
	if o := im.Decode(1 - wi); o.Fatal == "" {
		if d := model.Diff(o.Root, e.Cur); d != "" {
			e.fail("C14", "copy-fallback-meta", "after %s: the copy's other meta page describes different content: %s", when, d)
		}
	}
}

// RunStepNoCheck runs a tx step without the post-transaction checks.
func (e *Exec) RunStepNoCheck(i int, s *Step) {
	e.step = i
	e.opi = -1
	Pos.Store(int64(i) << 32)
	if s.Kind == "tx" {
		e.RunTx(s.Tx)
	}
}

// RunStep executes one top-level step of a single-task program.
func (e *Exec) RunStep(i int, s *Step) {
	e.step = i
	e.opi = -1
	Pos.Store(int64(i) << 32)
	switch s.Kind {
	case "tx":
		e.RunTx(s.Tx)
		if e.Failed() {
			return
		}
		writable := s.Tx.Mode == "update" || s.Tx.Mode == "rw"
		if writable {
			e.CheckContent(s.Tx.End)
			if e.FileChecks && (e.LastCommitOK || e.LastErr != nil) {
				e.CheckFile(s.Tx.End)
			}
			if e.BackupEvery > 0 && e.LastCommitOK && e.Probes["commit"]%e.BackupEvery == 0 && !e.Failed() {
				e.CheckBackup(s.Tx.End)
			}
			for _, id := range e.readerIDs() {
				e.CheckReader(id)
			}
		}
	case "reopen":
		e.Reopen(*s.Opts)
	case "ropen":
		e.OpenReader(s.Reader)
	case "rcheck":
		e.CheckReader(s.Reader)
	case "rclose":
		e.CloseReader(s.Reader)
	}
}
