package work

import (
	"fmt"
	"sort"

	"go.etcd.io/bbolt/xverif/model"
	"go.etcd.io/bbolt/xverif/sim"
)

// Guards stop the generator from producing the exact pattern of a *listed*
// known finding (so that one known defect does not poison every run). They are
// derived from known_findings.json; removing an entry removes its guard.
type Guards struct {
	NoMoveEdited         bool // F1: MoveBucket of a bucket edited earlier in the same tx
	NoMoveIntoDescendant bool // F2: MoveBucket into the moved bucket's own subtree
	NoReaderAcrossFault  bool // F6
}

// GenParams shapes program generation.
type GenParams struct {
	MaxSteps    int
	MaxOps      int  // per transaction
	Readers     bool // hold read transactions open across commits
	Reopen      bool
	ReopenOpts  bool // vary options at reopen
	CursorHeavy bool
	BucketHeavy bool
	Overwrite   bool // steady overwrite workload on few keys
	OnlyCommit  bool // every write tx ends in commit
	NoBigValues bool
	NoErrors    bool // do not generate argument/type error cases
	// FreelistHeavy: the history starts by filling and then deleting a bucket of page-sized values, so that
	// the free list is longer than one page for the rest of the run (multi-page freelist, overflow on page 2+)
	FreelistHeavy bool
	Guards        Guards
}

var pageSizes = []int{4096, 1024, 2048, 8192, 16384, 32768, 65536}

// GenConfig draws a swarm configuration. Index 0 of every choice is the
// plainest setting.
func GenConfig(t *sim.Tape) Config {
	var c Config
	c.PageSize = pageSizes[t.Pick(16, 24, 12, 8, 4, 1, 1)]
	if t.Chance(1, 2) {
		c.Freelist = "hashmap"
	} else {
		c.Freelist = "array"
	}
	c.NoFreelistSync = t.Chance(1, 3)
	c.NoGrowSync = t.Chance(1, 4)
	switch t.Pick(5, 2, 2) {
	case 1:
		c.InitialMmapSize = 1 << 20
	case 2:
		c.InitialMmapSize = 64 << 20
	}
	switch t.Pick(4, 2, 2, 1) {
	case 1:
		c.AllocSize = c.PageSize
	case 2:
		c.AllocSize = 8 * c.PageSize
	case 3:
		c.AllocSize = 64 * 1024
	}
	c.MapOrder = t.Pick(2, 1, 2)
	switch t.Pick(5, 1, 1, 1) {
	case 1:
		c.FillPct = 10
	case 2:
		c.FillPct = 100
	case 3:
		c.FillPct = 30 + t.Intn(60)
	}
	c.StrictMode = t.Chance(1, 10)
	c.Mlock = t.Chance(1, 12)
	c.Unit = []int{512, 4096, 64, 8}[t.Pick(4, 2, 2, 1)]
	return c
}

type gen struct {
	t    *sim.Tape
	p    GenParams
	cfg  Config
	cur  *model.Bucket
	w    *model.Bucket
	tag  uint32
	dirt map[*model.Bucket]bool
	keys map[string]keyParts
}

var bucketNames = []string{"b0", "b1", "b2", "b3", "zz", "a", "b0x", "ÿ", "a/b0", "a\x00b1"}
var keyStems = []string{"k", "k1", "key-", "a", "m\x00", "z", "é"}

// (the last two names look like a path of two of the others joined by a separator)
func (g *gen) bucketName() string { return bucketNames[g.t.Pick(8, 6, 4, 4, 2, 2, 2, 2, 1, 1)] }

func (g *gen) freshKey() (string, int) {
	stem := keyStems[g.t.Pick(6, 2, 2, 1, 1, 1, 1)]
	k := fmt.Sprintf("%s%03d", stem, g.t.Intn(400))
	pad := 0
	switch g.t.Pick(30, 3, 1, 1) {
	case 1:
		pad = 1 + g.t.Intn(200)
	case 2:
		pad = g.cfg.PageSize/2 + g.t.Intn(g.cfg.PageSize)
	case 3:
		if !g.p.NoBigValues {
			pad = 32768 - len(k) - g.t.Intn(3)
		}
	}
	return k, pad
}

func (g *gen) valLen() int {
	ps := g.cfg.PageSize
	if g.p.NoBigValues {
		return g.t.Intn(40)
	}
	switch g.t.Pick(12, 3, 3, 2, 1) {
	case 0:
		return g.t.Intn(48)
	case 1:
		return 0
	case 2:
		return ps/8 + g.t.Intn(ps/2)
	case 3:
		return ps - 64 + g.t.Intn(128)
	default:
		return ps + g.t.Intn(4*ps)
	}
}

// allPaths lists every bucket path in m (root first), deterministically.
func allPaths(m *model.Bucket) [][]string {
	var out [][]string
	var rec func(b *model.Bucket, p []string)
	rec = func(b *model.Bucket, p []string) {
		out = append(out, append([]string(nil), p...))
		for _, k := range b.Keys() {
			if e := b.M[k]; e.B != nil {
				rec(e.B, append(p, k))
			}
		}
	}
	rec(m, nil)
	return out
}

// split recovers the (stem, pad) form of a key the generator produced earlier.
func (g *gen) split(full string) (string, int) {
	if kp, ok := g.keys[full]; ok {
		return kp.k, kp.pad
	}
	return full, 0
}

// regAll makes keys of an inherited state known (they are used verbatim).
func (g *gen) regAll(b *model.Bucket) {}

func (g *gen) reg(k string, pad int) {
	if pad > 0 {
		g.keys[string(MkKey(k, pad))] = keyParts{k, pad}
	}
}

type keyParts struct {
	k   string
	pad int
}

func (g *gen) pickPath(nonRoot bool) []string {
	ps := allPaths(g.w)
	if nonRoot {
		ps = ps[1:]
	}
	if len(ps) == 0 {
		return nil
	}
	// bias towards the first few buckets so that they grow large
	if len(ps) > 3 && g.t.Chance(2, 3) {
		return ps[g.t.Intn(3)]
	}
	return ps[g.t.Intn(len(ps))]
}

func valueKeys(b *model.Bucket) []string {
	var ks []string
	for _, k := range b.Keys() {
		if b.M[k].B == nil {
			ks = append(ks, k)
		}
	}
	return ks
}

func bucketKeys(b *model.Bucket) []string {
	var ks []string
	for _, k := range b.Keys() {
		if b.M[k].B != nil {
			ks = append(ks, k)
		}
	}
	return ks
}

func (g *gen) existingKey(b *model.Bucket) (string, int, bool) {
	ks := valueKeys(b)
	if len(ks) == 0 {
		return "", 0, false
	}
	k := ks[g.t.Intn(len(ks))]
	s, pad := g.split(k)
	return s, pad, true
}

func subtreeDirty(b *model.Bucket, dirt map[*model.Bucket]bool) bool {
	if dirt[b] {
		return true
	}
	for _, e := range b.M {
		if e.B != nil && subtreeDirty(e.B, dirt) {
			return true
		}
	}
	return false
}

func hasPrefix(p, prefix []string) bool {
	if len(p) < len(prefix) {
		return false
	}
	for i := range prefix {
		if p[i] != prefix[i] {
			return false
		}
	}
	return true
}

// applyModel mirrors the effect of a successful op on the generator's shadow
// model (a simplified copy of Exec.ApplyOp's model side).
func (g *gen) applyModel(op Op) {
	mb := g.w.Lookup(toBytes(op.Path))
	if mb == nil {
		return
	}
	key := string(MkKey(op.Key, op.Pad))
	en := mb.M[key]
	switch op.Kind {
	case "put":
		if len(op.Path) == 0 || len(key) == 0 || len(key) > 32768 || (en != nil && en.B != nil) {
			return
		}
		mb.M[key] = &model.Entry{Val: []byte{}} // content irrelevant for generation
		g.dirt[mb] = true
	case "del", "cdel":
		if len(op.Path) == 0 || en == nil || en.B != nil {
			return
		}
		if op.Kind == "cdel" && op.N == 1 {
			g.dirt[mb] = true // overwritten, still present
			return
		}
		delete(mb.M, key)
		g.dirt[mb] = true
	case "mkb", "mkbi":
		if len(key) == 0 || en != nil {
			return
		}
		mb.M[key] = &model.Entry{B: model.NewBucket()}
		g.dirt[mb] = true
	case "rmb":
		if en == nil || en.B == nil {
			return
		}
		delete(mb.M, key)
		g.dirt[mb] = true
	case "mvb":
		md := g.w.Lookup(toBytes(op.Dst))
		if md == nil || md == mb || en == nil || en.B == nil || md.M[key] != nil {
			return
		}
		delete(mb.M, key)
		md.M[key] = en
		g.dirt[mb] = true
		g.dirt[md] = true
	case "setseq", "nextseq":
		if len(op.Path) > 0 {
			g.dirt[mb] = true
		}
	}
}

func (g *gen) cursorCalls(b *model.Bucket, n int) []CurCall {
	var calls []CurCall
	ks := b.Keys()
	for i := 0; i < n; i++ {
		var c CurCall
		first := i == 0
		w := []int{2, 2, 8, 6, 4}
		if first {
			w = []int{3, 3, 0, 0, 3}
		}
		switch g.t.Pick(w...) {
		case 0:
			c.F = "first"
		case 1:
			c.F = "last"
		case 2:
			c.F = "next"
		case 3:
			c.F = "prev"
		case 4:
			c.F = "seek"
			switch {
			case len(ks) > 0 && g.t.Chance(2, 3):
				k := ks[g.t.Intn(len(ks))]
				c.Key, c.Pad = g.split(k)
				switch g.t.Pick(3, 1, 1) {
				case 1: // a prefix: sorts before the key
					if len(c.Key) > 1 {
						c.Key, c.Pad = c.Key[:len(c.Key)-1], 0
					}
				case 2: // just after the key
					c.Key, c.Pad = c.Key+"\x00", 0
				}
			default:
				switch g.t.Pick(2, 1, 1) {
				case 0:
					c.Key, c.Pad = g.freshKey()
					if c.Pad > 300 {
						c.Pad = 0
					}
				case 1:
					c.Key = "" // below everything
				case 2:
					c.Key = "\U0010ffff" // above everything generated
				}
			}
		}
		calls = append(calls, c)
	}
	return calls
}

// genOp draws one op against the shadow model.
func (g *gen) genOp(writable bool) []Op {
	kind := 0
	if writable {
		w := []int{30, 6, 12, 5, 2, 3, 2, 2, 2, 2, 3, 3, 6, 5, 0, 2, 1, 1}
		if g.p.CursorHeavy {
			w[11] = 12
			w[12], w[13] = 8, 14
			w[15] = 6
		}
		if g.p.BucketHeavy {
			w[3], w[4], w[5], w[6] = 10, 4, 8, 8
		}
		kind = g.t.Pick(w...)
	} else {
		kind = []int{1, 7, 8, 10, 11, 14, 0, 2, 16, 17, 15}[g.t.Pick(5, 2, 3, 1, 4, 3, 1, 1, 1, 1, 1)] // mostly reads, a few refused mutators
	}
	switch kind {
	case 0: // put
		path := g.pickPath(true)
		if path == nil {
			return g.mkBucket()
		}
		b := g.w.Lookup(toBytes(path))
		op := Op{Kind: "put", Path: path}
		if k, pad, ok := g.existingKey(b); ok && g.t.Chance(1, 3) {
			op.Key, op.Pad = k, pad
		} else {
			op.Key, op.Pad = g.freshKey()
		}
		if !g.p.NoErrors {
			switch g.t.Pick(60, 1, 1, 1) {
			case 1:
				op.Key, op.Pad = "", 0
			case 2:
				op.Key, op.Pad = "big", 32768
			case 3:
				if bk := bucketKeys(b); len(bk) > 0 {
					op.Key, op.Pad = bk[0], 0
				}
			}
		}
		op.VLen = g.valLen()
		if op.VLen == 0 && g.t.Chance(1, 2) {
			op.NilV = true // the empty value passed as a nil slice
		}
		g.tag++
		op.VTag = g.tag
		g.reg(op.Key, op.Pad)
		return []Op{op}
	case 1: // get
		path := g.pickPath(true)
		if path == nil {
			return nil
		}
		b := g.w.Lookup(toBytes(path))
		op := Op{Kind: "get", Path: path}
		if k, pad, ok := g.existingKey(b); ok && g.t.Chance(3, 4) {
			op.Key, op.Pad = k, pad
		} else if bk := bucketKeys(b); len(bk) > 0 && g.t.Chance(1, 3) {
			op.Key = bk[0]
		} else {
			op.Key, op.Pad = g.freshKey()
			if op.Pad > 300 {
				op.Pad = 0
			}
		}
		return []Op{op}
	case 2: // del
		path := g.pickPath(true)
		if path == nil {
			return nil
		}
		b := g.w.Lookup(toBytes(path))
		op := Op{Kind: "del", Path: path}
		if k, pad, ok := g.existingKey(b); ok && g.t.Chance(7, 8) {
			op.Key, op.Pad = k, pad
		} else if bk := bucketKeys(b); len(bk) > 0 && !g.p.NoErrors && g.t.Chance(1, 2) {
			op.Key = bk[0]
		} else {
			op.Key, op.Pad = g.freshKey()
			if op.Pad > 300 {
				op.Pad = 0
			}
		}
		return []Op{op}
	case 3:
		return g.mkBucket()
	case 4: // mkbi
		path := g.pickPath(false)
		return []Op{{Kind: "mkbi", Path: path, Key: g.bucketName()}}
	case 5: // rmb
		path := g.pickPath(false)
		b := g.w.Lookup(toBytes(path))
		op := Op{Kind: "rmb", Path: path}
		if bk := bucketKeys(b); len(bk) > 0 && g.t.Chance(5, 6) {
			op.Key = bk[g.t.Intn(len(bk))]
		} else if vk := valueKeys(b); len(vk) > 0 && !g.p.NoErrors && g.t.Chance(1, 2) {
			op.Key, op.Pad = g.split(vk[0])
		} else {
			op.Key = g.bucketName()
		}
		return []Op{op}
	case 6: // mvb
		src := g.pickPath(false)
		sb := g.w.Lookup(toBytes(src))
		bk := bucketKeys(sb)
		op := Op{Kind: "mvb", Path: src}
		if len(bk) > 0 && g.t.Chance(7, 8) {
			op.Key = bk[g.t.Intn(len(bk))]
		} else {
			op.Key = g.bucketName()
		}
		op.Dst = g.pickPath(false)
		moved := append(append([]string(nil), src...), op.Key)
		if g.p.Guards.NoMoveIntoDescendant && hasPrefix(op.Dst, moved) {
			return nil
		}
		if en := sb.M[op.Key]; en != nil && en.B != nil && g.p.Guards.NoMoveEdited && subtreeDirty(en.B, g.dirt) {
			return nil
		}
		if g.p.NoErrors {
			db := g.w.Lookup(toBytes(op.Dst))
			if db == sb || db.M[op.Key] != nil || sb.M[op.Key] == nil || sb.M[op.Key].B == nil {
				return nil
			}
		}
		return []Op{op}
	case 7:
		if p := g.pickPath(true); p != nil {
			return []Op{{Kind: "seq", Path: p}}
		}
	case 8:
		if p := g.pickPath(true); p != nil {
			n := uint64(g.t.Intn(1000))
			if g.t.Chance(1, 10) {
				n = ^uint64(0) - uint64(g.t.Intn(2))
			}
			return []Op{{Kind: "setseq", Path: p, N: n}}
		}
	case 9:
		if p := g.pickPath(true); p != nil {
			return []Op{{Kind: "nextseq", Path: p}}
		}
	case 10:
		return []Op{{Kind: "foreach", Path: g.pickPath(false)}}
	case 11: // cursor
		p := g.pickPath(false)
		b := g.w.Lookup(toBytes(p))
		n := 1 + g.t.Intn(12)
		if g.p.CursorHeavy {
			n = 1 + g.t.Intn(60)
		}
		return []Op{{Kind: "cursor", Path: p, Calls: g.cursorCalls(b, n)}}
	case 12: // fill: many sequential small keys
		path := g.pickPath(true)
		if path == nil {
			return g.mkBucket()
		}
		n := 5 + g.t.Intn(60)
		stem := keyStems[g.t.Pick(6, 2, 2)]
		start := g.t.Intn(350)
		vl := g.t.Intn(24)
		if !g.p.NoBigValues && g.t.Chance(1, 6) {
			vl = g.cfg.PageSize / 6
		}
		var ops []Op
		for i := 0; i < n; i++ {
			g.tag++
			ops = append(ops, Op{Kind: "put", Path: path, Key: fmt.Sprintf("%s%03d", stem, (start+i)%400), VLen: vl, VTag: g.tag})
		}
		return ops
	case 13: // drain: delete a contiguous run of existing keys (may empty whole leaves)
		path := g.pickPath(true)
		if path == nil {
			return nil
		}
		b := g.w.Lookup(toBytes(path))
		ks := valueKeys(b)
		if len(ks) == 0 {
			return nil
		}
		from := g.t.Intn(len(ks))
		n := 1 + g.t.Intn(80)
		if g.t.Chance(1, 5) {
			from, n = 0, len(ks)
		}
		var ops []Op
		for i := from; i < len(ks) && i < from+n; i++ {
			k, pad := g.split(ks[i])
			ops = append(ops, Op{Kind: "del", Path: path, Key: k, Pad: pad})
		}
		return ops
	case 14:
		if p := g.pickPath(true); p != nil {
			return []Op{{Kind: "keyn", Path: p}}
		}
	case 15: // cursor delete
		path := g.pickPath(true)
		if path == nil {
			return nil
		}
		b := g.w.Lookup(toBytes(path))
		op := Op{Kind: "cdel", Path: path}
		if k, pad, ok := g.existingKey(b); ok && g.t.Chance(5, 6) {
			op.Key, op.Pad = k, pad
		} else if bk := bucketKeys(b); len(bk) > 0 && !g.p.NoErrors {
			op.Key = bk[0]
		} else {
			op.Key, op.Pad = g.freshKey()
			if op.Pad > 300 {
				op.Pad = 0
			}
		}
		if g.t.Chance(1, 3) {
			// variant: the positioned cursor is kept across a Put of the same key (N=1) instead of Cursor.Delete
			op.N = 1
			op.VLen = g.valLen()
			g.tag++
			op.VTag = g.tag
		}
		return []Op{op}
	case 16:
		return []Op{{Kind: "feb", Path: g.pickPath(false)}}
	case 17:
		return []Op{{Kind: "inspect"}}
	}
	return nil
}

func (g *gen) mkBucket() []Op {
	path := g.pickPath(false)
	if len(path) >= 5 {
		path = path[:4]
	}
	op := Op{Kind: "mkb", Path: path, Key: g.bucketName()}
	if !g.p.NoErrors && g.t.Chance(1, 40) {
		op.Key = ""
	}
	return []Op{op}
}

func (g *gen) genTxn(writable bool) *Txn {
	t := &Txn{}
	if writable {
		t.Mode = []string{"update", "rw"}[g.t.Pick(1, 1)]
		t.End = "commit"
		if !g.p.OnlyCommit {
			switch g.t.Pick(12, 2, 1, 1) {
			case 1:
				if t.Mode == "rw" {
					t.End = "rollback"
				} else {
					t.End = "error"
				}
			case 2:
				if t.Mode == "update" {
					t.End = "error"
				} else {
					t.End = "rollback"
				}
			case 3:
				if t.Mode == "update" {
					t.End = "panic"
				} else {
					t.End = "rollback"
				}
			}
		}
		g.w = g.cur.Clone()
	} else {
		t.Mode = []string{"view", "ro"}[g.t.Pick(1, 1)]
		t.End = "rollback"
		g.w = g.cur
	}
	g.dirt = map[*model.Bucket]bool{}
	n := 1 + g.t.Intn(g.p.MaxOps)
	if g.t.Chance(1, 4) {
		n = 1 + g.t.Intn(4)
	}
	for i := 0; i < n && len(t.Ops) < 4*g.p.MaxOps; i++ {
		ops := g.genOp(writable)
		for _, op := range ops {
			if writable {
				g.applyModel(op)
			}
			t.Ops = append(t.Ops, op)
		}
	}
	if writable && t.End == "commit" {
		g.cur = g.w
	}
	return t
}

// FinalModel returns the shape (buckets and keys; values are placeholders) of
// the state a program leaves behind when every commit succeeds.
func FinalModel(prog *Program) *model.Bucket {
	g := &gen{cur: model.NewBucket(), keys: map[string]keyParts{}}
	for _, st := range prog.Steps {
		if st.Kind != "tx" || (st.Tx.Mode != "update" && st.Tx.Mode != "rw") || st.Tx.End != "commit" {
			continue
		}
		g.w = g.cur.Clone()
		g.dirt = map[*model.Bucket]bool{}
		for _, op := range st.Tx.Ops {
			g.applyModel(op)
			if op.Pad > 0 {
				g.reg(op.Key, op.Pad)
			}
		}
		g.cur = g.w
	}
	return g.cur
}

// GenProgram draws a whole single-task program.
func GenProgram(ts *sim.Tapes, cfg Config, p GenParams) *Program {
	return GenProgramFrom(ts, cfg, p, model.NewBucket())
}

// GenProgramFrom draws a program that starts from the given state shape.
func GenProgramFrom(ts *sim.Tapes, cfg Config, p GenParams, start *model.Bucket) *Program {
	g := &gen{t: ts.Get("ops"), p: p, cfg: cfg, cur: start.Clone(), keys: map[string]keyParts{}}
	g.regAll(g.cur)
	prog := &Program{Cfg: cfg}
	nsteps := 1 + g.t.Intn(p.MaxSteps)
	if g.t.Chance(1, 3) { // many short runs
		nsteps = 1 + g.t.Intn(4)
	}
	if p.FreelistHeavy {
		n := cfg.PageSize/8 + cfg.PageSize/16 + g.t.Intn(cfg.PageSize/8)
		fill := &Txn{Mode: "update", End: "commit", Ops: []Op{{Kind: "mkb", Key: "flh"}}}
		for i := 0; i < n; i++ {
			fill.Ops = append(fill.Ops, Op{Kind: "put", Path: []string{"flh"}, Key: fmt.Sprintf("f%05d", i), VLen: cfg.PageSize - 200, VTag: uint32(900000 + i)})
		}
		drop := &Txn{Mode: "update", End: "commit", Ops: []Op{{Kind: "rmb", Key: "flh"}}}
		for _, t := range []*Txn{fill, drop} {
			g.w = g.cur.Clone()
			g.dirt = map[*model.Bucket]bool{}
			for _, op := range t.Ops {
				g.applyModel(op)
			}
			g.cur = g.w
			prog.Steps = append(prog.Steps, Step{Kind: "tx", Tx: t})
		}
	}
	openReaders := map[int]bool{}
	nextReader := 1
	bigMap := cfg.InitialMmapSize >= 64<<20
	for i := 0; i < nsteps; i++ {
		w := []int{20, 5, 0, 0, 0, 0}
		if p.Reopen {
			w[2] = 2
		}
		// a reader may only be held across writers while the map is large
		// enough never to be remapped (a writer that must remap waits for
		// every reader: on one task that is the documented self-deadlock)
		if p.Readers && bigMap {
			w[3] = 3
		}
		if len(openReaders) > 0 {
			w[4], w[5] = 3, 2
		}
		switch g.t.Pick(w...) {
		case 0:
			prog.Steps = append(prog.Steps, Step{Kind: "tx", Tx: g.genTxn(true)})
		case 1:
			prog.Steps = append(prog.Steps, Step{Kind: "tx", Tx: g.genTxn(false)})
		case 2:
			for id := range openReaders {
				delete(openReaders, id)
			}
			o := OpenOpts{Freelist: cfg.Freelist, NoFreelistSync: cfg.NoFreelistSync, NoGrowSync: cfg.NoGrowSync,
				InitialMmapSize: cfg.InitialMmapSize, GivePageSize: true, Mlock: cfg.Mlock, StrictMode: cfg.StrictMode, AllocSize: cfg.AllocSize}
			if p.ReopenOpts {
				o = GenOpenOpts(g.t, cfg)
			}
			bigMap = o.InitialMmapSize >= 64<<20
			prog.Steps = append(prog.Steps, Step{Kind: "reopen", Opts: &o})
		case 3:
			if len(openReaders) < 3 {
				prog.Steps = append(prog.Steps, Step{Kind: "ropen", Reader: nextReader})
				openReaders[nextReader] = true
				nextReader++
			}
		case 4, 5:
			ids := make([]int, 0, len(openReaders))
			for id := range openReaders {
				ids = append(ids, id)
			}
			sort.Ints(ids)
			if len(ids) > 0 {
				id := ids[g.t.Intn(len(ids))]
				kind := "rcheck"
				if g.t.Chance(1, 2) {
					kind = "rclose"
					delete(openReaders, id)
				}
				prog.Steps = append(prog.Steps, Step{Kind: kind, Reader: id})
			}
		}
	}
	return prog
}

// GenOpenOpts draws the options of one reopen (read-write).
func GenOpenOpts(t *sim.Tape, cfg Config) OpenOpts {
	o := OpenOpts{GivePageSize: t.Chance(1, 2), AllocSize: cfg.AllocSize}
	if t.Chance(1, 2) {
		o.Freelist = "hashmap"
	} else {
		o.Freelist = "array"
	}
	o.NoFreelistSync = t.Chance(1, 2)
	o.NoGrowSync = t.Chance(1, 3)
	switch t.Pick(3, 1, 1) {
	case 1:
		o.InitialMmapSize = 1 << 20
	case 2:
		o.InitialMmapSize = 64 << 20
	}
	o.Mlock = t.Chance(1, 8)
	o.PreLoadFreelist = t.Chance(1, 2)
	o.StrictMode = t.Chance(1, 8)
	o.WrongPageSize = t.Chance(1, 6) // only ever applied to an existing file
	return o
}
