#!/usr/bin/env python3
"""Regenerates MANIFEST.json from the table below (kept valid at all times)."""
import json, subprocess

HOOK_COMMITS = subprocess.run(["git","-C","/repo","log","--format=%H %s","--grep=^verif hooks"],capture_output=True,text=True).stdout.strip().splitlines()

BASE = "for m in $(cat /w/out/gomods.txt); do MF=$(cd /repo/$m && . /w/out/goenv.sh && gomodflag); (cd /repo/$m && go test $MF -json -vet=off -count=1 -timeout 25m ./...); done"

TRUST = "trusted: the reference model (model/), the independent v2 decoder (dec/), the kernel's pwrite/mmap/flock; sampled, not exhaustive"

CHECKS = {
 "C04": dict(engine="modelsim", cat="exploration", ref="DESIGN.md §6 C04",
   text="Seeded exploration of API programs (fault-free single-task arm of the simulator) against an executable reference model; every result, error and post-commit dump compared. Evidence, not proof: programs are sampled.",
   tech="deterministic simulation (fault-free arm): seeded API programs vs reference model, shrinking + exact replay"),
 "C05": dict(engine="modelsim", cat="exploration", ref="DESIGN.md §6 C05",
   text="Seeded exploration of cursor call sequences inside dirty write transactions against a model cursor, with a real-time watchdog for calls that never return. One run in 64 puts more than 65536 uncommitted keys into one leaf and navigates it; cursors are also kept across a mutation of their key and repositioned with Seek.",
   tech="deterministic simulation (fault-free arm): seeded cursor programs vs model cursor, hang watchdog"),
 "C07": dict(engine="modelsim", cat="exploration", ref="DESIGN.md §6 C07",
   text="After every commit and reopen of seeded histories the file is decoded by an independent reader and every page classified; compared with Tx.Check, Stats and Tx.Page.",
   tech="deterministic simulation: seeded histories, independent page accounting after every commit"),
 "C12": dict(engine="modelsim", cat="exploration", ref="DESIGN.md §6 C12",
   text="Differential check of every file written in seeded histories against an independent implementation of the published v2 layout, plus a golden corpus. Every third run lays the content out with an independent encoder (layouts the current writer never produces) and the real code must read and continue it; one run in 96 writes and re-reads a free list of more than 65535 entries in-system.",
   tech="deterministic simulation: seeded histories decoded by an independent v2 reader"),

 "C01": dict(engine="crashsim+schedsim", cat="fault_enumeration", ref="DESIGN.md §6 C01, §11.9",
   text="Crash points are enumerated per recorded history (after every I/O call and inside writes) and crossed with persisted subsets of the unsynced units (complete for small windows, structured samples otherwise); each crash image is judged by the independent decoder and by real recovery plus a follow-up commit. Histories are sampled. Round 3: histories with a multi-page free list, histories ending in a commit with a failing sync (an acknowledged commit must survive), commit failures in the middle of a history, read-only inspection of crash images before recovery, the end of the history as a crash point; every fourth run builds crash states from the I/O log of a multi-writer run under the token scheduler. Round 4: a fifth of the sequential histories run under a reachable MaxSize (commits refused at the limit in the middle of the history).",
   tech="deterministic simulation with fault injection: shadow-disk crash-state enumeration (crash point x persisted subset), decoder + real recovery oracle"),
 "C06": dict(engine="crashsim", cat="exploration", ref="DESIGN.md §6 C06",
   text="Invariant monitored on every pwrite of every seeded history: the written page range must not intersect the page sets of the newest committed version, of any open reader's version, or the newest meta slot. A sixth of the sequential histories contain a commit failure (data write, data sync, torn meta write) whose aftermath the monitor judges.",
   tech="deterministic simulation: I/O interposition monitor over seeded histories with held readers"),
 "C08": dict(engine="faultsim+schedsim+sizesim", cat="fault_enumeration", ref="DESIGN.md §6 C08",
   text="For a chosen commit of each seeded history every I/O call it issues is made to fail once (all positions and kinds in thorough, a sample incl. meta write and final sync in quick), with and without readers held across the failure; afterwards in-process state, readers, accounting, the next writer and the reopened state are checked. Every third run is the concurrent arm: writer and reader tasks under the token scheduler while I/O faults hit whichever commits are running (readers that begin or dump during the failing commit keep their snapshot, waiting writers proceed, clean reopen shows the newest acknowledged version). One run in six is the size-limit arm: growing workloads against a MaxSize, what a refused commit leaves behind (content, accounting, statistics, the next writer) is judged as after any other failed commit. Histories are sampled.",
   tech="deterministic simulation with fault injection: k-th I/O call of a commit fails (EIO/ENOSPC/short write) through the I/O hooks; sequential enumeration arm + token-scheduler arm with faults under concurrency"),
 "C18": dict(engine="sizesim", cat="exploration", ref="DESIGN.md §6 C18",
   text="Seeded growing workloads under MaxSize values drawn around every alignment boundary; file length monitored at every ftruncate/pwrite and after every step; failing transactions must fail with the size-limit error and leave state intact.",
   tech="deterministic simulation: I/O interposition length monitor over seeded growing workloads x limit/map-size/alloc-size configurations"),
 "C02": dict(engine="schedsim", cat="exploration", ref="DESIGN.md §6 C02",
   text="Seeded exploration of reader/writer interleavings under a token scheduler (every scheduling decision from the tape, exact replay): readers of different ages dump their whole view in chunks while writers commit, roll back, reuse pages, grow and remap; each dump is compared with the model version of the reader's txid.",
   tech="deterministic simulation: seeded token scheduler over lock-probe/yield/I/O hooks in a synctest bubble, versioned reference model"),
 "C03": dict(engine="schedsim", cat="exploration", ref="DESIGN.md §6 C03",
   text="Seeded exploration of multi-writer/reader/Stats/Close interleavings: one-writer monitor, consecutive ids, serial replay of every writer's reads against the model in id order, invisibility of failed bodies, porcupine linearizability of the txid history, deadlock detection, Close semantics. Race freedom is not decided by this arm. Every fourth run is the Batch arm: DB.Batch callers under the scheduler and fake clock with a task closing the database while calls are queued; every call must return. The free-running -race arm also runs WriteTo, Sync, Stats and accessors.",
   tech="deterministic simulation: seeded token scheduler, serial-replay oracle + porcupine linearizability of the recorded history"),
 "C10": dict(engine="reclaimsim", cat="exploration", ref="DESIGN.md §6 C10",
   text="Seeded overwrite workloads with reader open/close patterns between write transactions; the pending-page count after reader-free commits is bounded by what the independent decoder says the commit released, pages of open readers' versions are never written, and steady workloads stay within a copy-on-write growth bound. Round 3: physically rolled-back transactions (panic, injected I/O failure, size-limit failure in spill) with a space-conservation rule, NoStatistics runs, and a statistics-free tail oracle on the high-water mark.",
   tech="deterministic simulation: seeded reader open/close patterns over overwrite workloads, decoder-derived reclamation bounds, pwrite monitor"),
 "C14": dict(engine="schedsim", cat="exploration", ref="DESIGN.md §6 C14",
   text="Seeded multi-task runs in which backup tasks copy a read transaction (WriteTo into a writer that yields on every Write, CopyFile, WriteFlag) while writer tasks keep committing; the copy must have Tx.Size() bytes, decode cleanly to the snapshot's model version, open, dump equal and pass Tx.Check. Destinations that fail part-way (failing writer, /dev/full) must make the copy return an error.",
   tech="deterministic simulation: token scheduler, harness io.Writer as a scheduling seam during WriteTo"),
 "C16": dict(engine="batchsim", cat="exploration", ref="DESIGN.md §6 C16",
   text="Seeded runs of concurrent Batch callers under the token scheduler and fake clock (batch timers fire only when the scheduler advances time), with per-call failure plans; exactly-once tokens and read-modify-write counters per nil return, own error/panic per failure, every call returns. In a third of the runs I/O faults make batch commits fail: every caller of that batch must be told and none of its effects committed.",
   tech="deterministic simulation: token scheduler + synctest fake clock over DB.Batch, exactly-once token/counter oracle"),
 "C17": dict(engine="locksim", cat="exploration", ref="DESIGN.md §6 C17",
   text="Seeded open/close schedules of read-write and read-only handles on one path under the token scheduler and fake clock against a lock model; seeded API programs and the CLI inspection commands against a read-only handle with every I/O call observed and the file hash compared; writes into returned memory must fault or leave content unchanged. Round 3: openers racing to create the file with a per-holder counter that must not lose increments; the fault-or-copy probe also on read transactions of read-write handles. Round 4: read-only opens and every CLI inspection command on an empty file and on junk must leave the file byte-identical.",
   tech="deterministic simulation: token scheduler + fake clock over flock retry/timeout, I/O interposition on a read-only handle, fault-or-copy probe"),
 "C09": dict(engine="flspec", cat="exploration", ref="DESIGN.md §6 C09",
   text="Seeded sequences of allocator operations, structured as the database issues them, run on both freelist backends against a shadow specification written from the property; serialisation checked by the published page layout incl. the >65534-entry encoding. The allocator has no I/O/clock/schedule: plain seeded model-based testing, said plainly. The count-overflow scenario writes 65533..65536 and more entries (the boundary itself), also in quick.",
   tech="seeded model-based testing of the freelist backends against a shadow specification (fault-free arm; no simulator dimension in this component)"),
 "C11": dict(engine="corruptsim", cat="fault_enumeration", ref="DESIGN.md §6 C11",
   text="Stored-byte fault injection on files at rest: every byte of each 64-byte meta record x replacement values (all 255 in thorough, boundary + sampled values in quick), every prefix of a would-be newer meta, both-damaged pairs, truncations, junk; expected Open result derived from the independent decoder and the model version table. Files are sampled; a quarter of them are hot backups (Tx.WriteTo), and every source must have two valid meta pages before anything is damaged.",
   tech="fault injection on stored bytes (exhaustive per file in thorough) with an independent decoder as oracle"),
 "C13": dict(engine="optsim", cat="exploration", ref="DESIGN.md §6 C13",
   text="One seeded history executed under three option schedules (option assignment per Open, incl. flipping freelist-sync/backend at every reopen, different page sizes, read-only passes); every result compared with the model in each execution; rebuilt free list compared with the persisted one on the same file.",
   tech="deterministic simulation (fault-free arm): option-schedule differential execution against the reference model and decoder"),
 "C15": dict(engine="compactsim", cat="exploration", ref="DESIGN.md §6 C15",
   text="Seeded source populations compacted (library and CLI) under a range of transaction-size limits; destination decoded, dumped, checked; source hash compared. No fault/schedule dimension: fault-free arm, said plainly. A quarter of the sources are foreign layouts; bucket names that equal joined nested paths.",
   tech="seeded model-based testing over simulated histories as source population (fault-free arm)"),
 "C19": dict(engine="corruptsim", cat="fault_enumeration", ref="DESIGN.md §6 C19",
   text="Sweep of single structural corruptions of the listed classes over eligible pages/elements of consistent files from seeded histories; the independent decoder referees which classes are present; Tx.Check and `bbolt check` must report exactly then. Files are sampled; the sweep per file is capped. A quarter of the files are foreign layouts; bucket headers redirected to another bucket's root (referenced twice through a header); round 4: an invalid type value in the header of either meta page.",
   tech="structural fault injection on files at rest, independent decoder as referee, library + CLI"),
 "C20": dict(engine="repairsim", cat="exploration", ref="DESIGN.md §6 C20",
   text="Repair commands run from the CLI package on files from seeded histories; outputs decoded and opened, free == unreachable, revert output equals the previous model version, sources byte-identical. One run in 46 uses a file of more than 16 MiB whose meta pages disagree about the high-water mark.",
   tech="seeded histories + CLI surgery commands judged by the independent decoder and the model version table (fault-free arm)"),
}

NA_PENDING = {}
for i in range(1,21):
    pid = "C%02d" % i
    if pid not in CHECKS:
        NA_PENDING[pid] = "check under construction in this session (see DESIGN.md); not claimed until its engine is committed"

m = {
 "version": 1,
 "setup_cmd": "./setup.sh",
 "hooks": {
   "guard": "verif",
   "enable": "go build -tags verif (the checks run `go test -c -tags verif ./props` against /repo's working tree)",
   "baseline_off_cmd": BASE,
   "source_commits": [l.split()[0] for l in HOOK_COMMITS],
   "add_only": False,
 },
 "engines": [
   {"name":"crashsim","path":"props/crashsim.go","serves_properties":["C01","C06"],"kind_free_text":"record-once history over the shadow disk, crash-state construction, real recovery; pwrite monitor"},
   {"name":"faultsim","path":"props/faultsim.go","serves_properties":["C08"],"kind_free_text":"k-th I/O call of a commit fails; state, readers, next writer and reopen checked"},
   {"name":"sizesim","path":"props/sizesim.go","serves_properties":["C18"],"kind_free_text":"growing workloads under MaxSize with a file-length monitor on the I/O hooks"},
   {"name":"schedsim","path":"props/schedsim.go","serves_properties":["C02","C03","C14"],"kind_free_text":"multi-task runs under the token scheduler inside a synctest bubble"},
   {"name":"batchsim","path":"props/batchsim.go","serves_properties":["C16"],"kind_free_text":"concurrent Batch callers under the token scheduler and fake clock"},
   {"name":"locksim","path":"props/locksim.go","serves_properties":["C17"],"kind_free_text":"lock schedules under scheduler + fake clock; read-only handle under I/O observation; CLI"},
   {"name":"reclaimsim","path":"props/reclaimsim.go","serves_properties":["C10"],"kind_free_text":"overwrite workloads with reader patterns; decoder-derived reclamation bounds"},
   {"name":"corruptsim","path":"props/corruptsim.go","serves_properties":["C11","C19"],"kind_free_text":"stored-byte and structural corruption of files at rest"},
   {"name":"toolsim","path":"props/toolsim.go","serves_properties":["C13","C15","C20"],"kind_free_text":"option schedules, compaction, repair commands over seeded histories"},
   {"name":"flspec","path":"props/flspec.go","serves_properties":["C09"],"kind_free_text":"freelist backends vs shadow specification"},
   {"name":"modelsim","path":"props/modelsim.go","serves_properties":["C04","C05","C07","C12"],"kind_free_text":"fault-free single-task arm of the simulator: seeded programs, reference model, independent decoder"},
 ],
 "checks": [],
 "notes": "add_only is false because three `range m` expressions in bucket.go became `range verifOrdered(m)` (identity when the tag is off) and the three long-held lock fields of DB got the types verifMutex / verifRWMutex (aliases of sync.Mutex / sync.RWMutex when the tag is off; self-probing wrappers when on); every other hook only adds lines. Exit codes: 0 held / 1 VIOLATION / 2 harness trouble.",
 "not_applicable": [{"property_id":k,"reason":v} for k,v in sorted(NA_PENDING.items())],
}
for pid,c in sorted(CHECKS.items()):
    m["checks"].append({
      "property_id": pid,
      "quick_cmd": f"./vcheck {pid} --tier quick",
      "thorough_cmd": f"./vcheck {pid} --tier thorough",
      "evidence_file": f"evidence/{pid}.json",
      "replay_cmd_template": f"./vcheck {pid} --replay {{path}}",
      "engine": c["engine"],
      "level_claimed": {"category": c["cat"], "text": c["text"], "design_ref": c["ref"]},
      "level_note": TRUST,
      "technique": c["tech"],
    })
json.dump(m, open("/verif/MANIFEST.json","w"), indent=1)
print("checks:", len(m["checks"]), "not_applicable:", len(m["not_applicable"]))
