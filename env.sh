# source this: offline Go environment for the bbolt verification harness
export GOROOT_VERIF=/root/go/pkg/mod/golang.org/toolchain@v0.0.1-go1.25.11.linux-amd64
if [ ! -x "$GOROOT_VERIF/bin/go" ]; then
  GOROOT_VERIF=/opt/veriftools/go1.26.8
fi
export PATH="$GOROOT_VERIF/bin:$PATH"
export GOTOOLCHAIN=local GOFLAGS=-mod=mod GOPROXY=off GOSUMDB=off CGO_ENABLED=1
